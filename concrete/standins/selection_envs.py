"""Bounded stand-in for the selection environments FLPEnv, MCPEnv, DPPEnv, MDPPEnv (properties C08, C02, C03, C04).

Every episode is driven through the REAL env.reset / env.step / env.get_reward with actions confined to the env's own
action mask (random admitted orders, and for tiny sizes ALL admitted orders); every clause is judged by an oracle that
is computed only from the original instance data, the quota the harness configured and the executed actions.

Clauses (names are "<prop>.<env>.<failure class>") and their oracle
 C08 mask-offers-forbidden / mask-offers-chosen / mask-withholds-allowed : before each step of an unfinished row the
     mask must equal allowed0 & ~selected-so-far; allowed0 = all items (FLP, MCP), = not keep-out and not a probe (DPP, MDPP)
 C08 selected-forbidden-or-duplicate : the first `quota` executed actions are distinct and in allowed0
 C08 done-before-quota / done-after-quota : done after step t  <=>  t >= quota (quota = to_choose[b], n_sets_to_choose[b],
     or the max_decaps the harness configured, never read back from the env)
 C08 flp.distances / flp.chosen / mcp.weights / mcp.membership / mcp.chosen / dpp.static-fields : FLP 'distances' ==
     min over chosen facilities of the float64 Euclidean distance recomputed from locs; MCP 'weights' == original weight of
     items not in any chosen set (index 0 of the membership rows is padding, at arbitrary positions), MCP 'membership' ==
     original rows of the not-chosen sets (chosen rows zero); DPP probe/keepout never change
 C08 mdpp.ctor-ignores-generator-config : the env's quota/grid are the ones of the generator it was built with
 C02 dead-end (all-masked row while the batch is running, finished rows included) / finished-becomes-unfinished /
     step-bound-exceeded (episode needs more than max quota steps) / reset|step-raises
 C03 reward-mismatch / get_reward-raises : FLP  -sum_j min_{f in first quota actions} |x_j - x_f| ; MCP sum of the weights of
     the union of the chosen sets; DPP sum_f (|Z[p,p]| - |Z'[p,p]|)*1e9/freq_f / 10 with Z' = Z - Z[:,P](Z[P,P]+|z_decap| I)^-1 Z[P,:]
     evaluated on the FULL port matrix in complex128 (no port removal / index shifting); MDPP min (minmax) or mean (meansum)
     of that score over the probes
 C04 mask-/finish-step-/reward-depends-on-batch : a row replayed alone (batch size 1) and inside a reversed batch with an
     extra copy of row 0 gives bit-identical pre-finish masks, the same finishing step and the same reward (1e-6);
     mixed-quota.post-finish-padding-changes-reward : rows of a batch with per-row quotas that keep being stepped after they
     finished must still report the objective of their first `quota` selections; done-shape : done has one flag per row
Bound (exact text in Report.bound): FLP num_loc {2,3,5,8} (+{12,20} thorough), MCP (items,sets,max_size) {(3,2,2),(6,4,3),(10,6,4)}
(+(30,12,6)), DPP/MDPP 3x3 and 4x4 synthetic grids with max_decaps 1..4; quotas {1, n//2, n} and random per-row quotas; batches of
1/2/4/5 rows, K=5 (quick) / K=40 (thorough) fresh instance+order draws per configuration; exhaustive all-orders batches (up to
64/325 rows) for 4 (thorough also 5) items and for 1..2 (thorough 1..3) decaps on a 3x3 layout.
Preconditions: 1 <= quota <= number of allowed items of the row. DPP/MDPP data files cannot be downloaded offline: the
harness writes small synthetic PDN data (3x3 / 4x4 grids, 3 frequencies, real and complex port matrices) into a temp dir
and the real constructors / generators / simulators load them; the real 10x10, 201-frequency data set is NOT exercised.
"""
import atexit
import itertools
import os
import shutil
import sys
import tempfile
import warnings

sys.path.insert(0, os.path.dirname(os.path.abspath(__file__)))
import _lib  # noqa: E402

_lib.setup_path()
import numpy as np  # noqa: E402
import torch  # noqa: E402
from tensordict import TensorDict  # noqa: E402

from rl4co.envs.eda.dpp.env import DPPEnv  # noqa: E402
from rl4co.envs.eda.mdpp.env import MDPPEnv  # noqa: E402
from rl4co.envs.graph.flp.env import FLPEnv  # noqa: E402
from rl4co.envs.graph.mcp.env import MCPEnv  # noqa: E402

warnings.filterwarnings("ignore")

KNOWN = {
    "C04.flp.mixed-quota.post-finish-padding-changes-reward": "batch with per-row to_choose e.g. [1,2]: row 0 keeps being stepped, "
    "its padding selection enters td['chosen'] and get_reward charges the distance to 2 facilities instead of 1",
    "C04.mcp.mixed-quota.post-finish-padding-changes-reward": "batch with per-row n_sets_to_choose e.g. [[1],[2]]: the padding set "
    "chosen by the finished row is counted as covered weight by get_reward",
    "C04.mcp.done-shape-BxB": "any batch of B>1 rows: i has shape [B], n_sets_to_choose [B,1], so done = i >= n-1 is [B,B]",
    "C08.mdpp.ctor-ignores-generator-config": "MDPPEnv(generator_params=dict(max_decaps=3, data_dir=<4x4 data>)): env.max_decaps/"
    "size/raw_pdn come from a default DPPGenerator() (20 decaps, data/dpp), not from env.generator",
    "C03.mdpp.single-probe.get_reward-raises": "MDPP instance with exactly one probing port: nonzero().squeeze() is 0-d, "
    "'iteration over a 0-d tensor' TypeError in _single_env_reward",
}

ARGS = _lib.args()
REP = None
RNG = torch.Generator()


def fail(name, what, inp=None):
    if ARGS.prop and not name.startswith(ARGS.prop):
        return
    (REP.known if name in KNOWN else REP.violation)(name, what, inp)


def lib(clause, fn, inp):
    """Call the library; an exception on a valid input is a violation of `clause`."""
    try:
        return fn()
    except Exception as e:  # noqa: BLE001
        name = clause(e) if callable(clause) else clause
        fail(name, f"library raised {type(e).__name__}: {str(e)[:200]}", inp() if callable(inp) else inp)
        return None


# ------------------------------------------------------------------ adapters (oracles) ---------------------------------
class FLP:
    name = "flp"

    def __init__(self, n, q):
        self.cfg = dict(num_loc=n, to_choose=q)
        self.env = FLPEnv(generator_params=dict(num_loc=n, to_choose=q))

    def quota(self, td0):
        return td0["to_choose"].reshape(-1).long()

    def allowed(self, td0):
        return torch.ones(td0["locs"].shape[:2], dtype=torch.bool)

    @staticmethod
    def dist(td0):
        x = td0["locs"].double()
        return (x[:, :, None, :] - x[:, None, :, :]).pow(2).sum(-1).sqrt()

    def book(self, td, td0, S, live):
        exp = self.dist(td0).masked_fill(~S[:, :, None], float("inf")).min(1).values
        out = [("C08.flp.distances", ((td["distances"].double() - exp).abs() > 1e-5).any(-1) & live, "distances != min over chosen")]
        out.append(("C08.flp.chosen", (td["chosen"] != S).any(-1) & live, "chosen != selected so far"))
        return out

    def reward(self, td0, b, acts):
        return -float(self.dist(td0)[b][acts].min(0).values.sum())


class MCP:
    name = "mcp"

    def __init__(self, ni, ns, q, smin=1, smax=3):
        self.cfg = dict(num_items=ni, num_sets=ns, min_size=smin, max_size=smax, n_sets_to_choose=q)
        self.env = MCPEnv(generator_params=self.cfg)

    def quota(self, td0):
        return td0["n_sets_to_choose"].reshape(-1).long()

    def allowed(self, td0):
        return torch.ones(td0["membership"].shape[:2], dtype=torch.bool)

    @staticmethod
    def incidence(td0):  # [B, n_sets, n_items] bool, membership value k>0 means item k-1, 0 is padding
        m = td0["membership"].long()
        inc = torch.zeros(*m.shape[:2], td0["weights"].shape[1] + 1, dtype=torch.bool)
        return inc.scatter_(2, m, True)[:, :, 1:]

    def book(self, td, td0, S, live):
        covered = (S[:, :, None] & self.incidence(td0)).any(1)
        exp_w = td0["weights"] * (~covered)
        exp_m = td0["membership"] * (~S)[:, :, None]
        return [("C08.mcp.weights", ((td["weights"] - exp_w).abs() > 1e-6).any(-1) & live, "weights != uncovered original weights"),
                ("C08.mcp.membership", (td["membership"] != exp_m).flatten(1).any(-1) & live, "membership != rows of unchosen sets"),
                ("C08.mcp.chosen", (td["chosen"] != S).any(-1) & live, "chosen != selected so far")]

    def reward(self, td0, b, acts):
        items = {int(k) for s in acts for k in td0["membership"][b, s].tolist() if int(k) != 0}
        return float(sum(float(td0["weights"][b, k - 1]) for k in items))


class DPP:
    name, cls = "dpp", DPPEnv

    def __init__(self, data, q, kmax, **kw):
        self.data, self.q = DATA[data], q
        self.cfg = dict(data=data, max_decaps=q, num_keepout_max=kmax, **kw)
        gp = dict(data_dir=data, num_keepout_min=1, num_keepout_max=kmax, max_decaps=q)
        if self.name == "mdpp":
            gp.update(num_probes_min=2, num_probes_max=4)
        self.env = env = self.cls(generator_params=gp, **kw)
        g = env.generator
        if env.max_decaps != q or env.size != g.size or env.raw_pdn.shape != g.raw_pdn.shape:
            fail(f"C08.{self.name}.ctor-ignores-generator-config", f"env.max_decaps={env.max_decaps} size={env.size}, generator "
                 f"max_decaps={g.max_decaps} size={g.size}", dict(cls=self.cls.__name__, generator_params=gp))
            for k in "max_decaps size raw_pdn decap freq num_freq data_dir".split():  # what DPPEnv.__init__ copies
                setattr(env, k, getattr(g, k))

    def quota(self, td0):
        return torch.full((td0.batch_size[0],), self.q, dtype=torch.long)

    def probes(self, td0):  # [B, N] bool
        p = td0["probe"]
        return p.bool() if self.name == "mdpp" else torch.zeros_like(td0["action_mask"]).scatter_(1, p, True)

    def allowed(self, td0):
        return td0["action_mask"] & ~self.probes(td0)

    def book(self, td, td0, S, live):
        same = (td["probe"] != td0["probe"]).flatten(1).any(-1) | (td["keepout"] != ~td0["action_mask"]).any(-1)
        return [(f"C08.{self.name}.static-fields", same, "probe/keepout changed during the episode")]

    def score(self, probe, acts):
        Z, dec, freq = self.data
        Z, P = Z.astype(np.complex128), list(acts)
        K = Z[:, P][:, :, P] + np.abs(dec).reshape(-1, 1, 1) * np.eye(len(P))
        Zn = Z - Z[:, :, P] @ np.linalg.inv(K) @ Z[:, P, :]
        return float(np.sum((np.abs(Z[:, probe, probe]) - np.abs(Zn[:, probe, probe])) * 1e9 / freq.astype(np.float64)) / 10)

    def reward(self, td0, b, acts):
        sc = [self.score(p, acts) for p in self.probes(td0)[b].nonzero().flatten().tolist()]
        return min(sc) if self.cfg.get("reward_type", "minmax") == "minmax" else sum(sc) / len(sc)


class MDPP(DPP):
    name, cls = "mdpp", MDPPEnv


# ------------------------------------------------------------------ synthetic PDN data ---------------------------------
DATA, K = {}, 3


def write_data(d, n, seed, F=3, cplx=False):
    os.makedirs(d, exist_ok=True)
    g, N = np.random.default_rng(seed), n * n
    M = g.random((F, N, N)) * np.sqrt(N)
    Z = 0.5 * (M + M.transpose(0, 2, 1))
    Z[:, np.arange(N), np.arange(N)] = N * (1 + g.random((F, N)))
    Z = Z.astype(np.float32)
    if cplx:
        Mi = g.random((F, N, N)) * np.sqrt(N)
        Z = (Z + 0.5j * (Mi + Mi.transpose(0, 2, 1))).astype(np.complex64)
    dec = ((1 + g.random((F, 1, 1))) * N / 2 + 1j * g.random((F, 1, 1)) * N / 2).astype(np.complex64)
    freq = (1e8 * (1 + np.arange(F)) ** 2).astype(np.float32)
    for f, a in (("10x10_pkg_chip.npy", Z), ("01nF_decap.npy", dec), ("freq_201.npy", freq)):
        np.save(os.path.join(d, f), a)
    DATA[d] = (Z, dec, freq)


def dpp_instances(ad, B, n, multi, nprobes=None):
    """Hand-made keep-out layouts; MDPP rows with odd index leave the probe cells True in action_mask (env must remove them)."""
    N = n * n
    locs = torch.stack(torch.meshgrid(torch.arange(n), torch.arange(n), indexing="ij"), -1).reshape(-1, 2) / n
    mask, probe = torch.ones(B, N, dtype=torch.bool), torch.zeros(B, N, dtype=torch.bool)
    for b in range(B):
        perm = torch.randperm(N, generator=RNG)
        p = (nprobes or int(torch.randint(2, 5, (1,), generator=RNG))) if multi else 1
        k = int(torch.randint(0, N - p - ad.q + 1, (1,), generator=RNG))
        probe[b, perm[:p]] = True
        mask[b, perm[p:p + k]] = False
        if not (multi and b % 2):
            mask[b, perm[:p]] = False
    pr = probe if multi else probe.long().argmax(-1, keepdim=True)
    return TensorDict({"locs": locs.expand(B, N, 2).clone(), "probe": pr, "action_mask": mask}, batch_size=[B])


def mcp_instances(B, ni, ns, K, quotas):
    """Hand-made: zero padding at arbitrary positions, empty sets, repeated items inside a set, integer weights."""
    m = torch.randint(1, ni + 1, (B, ns, K), generator=RNG)
    m = m * (torch.rand(B, ns, K, generator=RNG) < 0.6)
    m[:, -1] = m[:, -1] * (torch.arange(B) % 3 != 0)[:, None]  # every third row has an empty last set
    w = torch.randint(1, 11, (B, ni), generator=RNG).float()
    return TensorDict({"membership": m.float(), "weights": w, "n_sets_to_choose": torch.tensor(quotas).float().reshape(B, 1)}, batch_size=[B])


# ------------------------------------------------------------------ the driver -----------------------------------------
def rowdone(ad, d, B, inp):
    if d.numel() == B:
        return d.reshape(B).bool()
    if tuple(d.shape) == (B, B):
        fail(f"C04.{ad.name}.done-shape-BxB", f"done has shape {list(d.shape)} for a batch of {B} rows", inp(0))
        return d.all(-1)
    fail(f"C04.{ad.name}.done-shape", f"done has shape {list(d.shape)} for a batch of {B} rows", inp(0))
    return d.reshape(B, -1).all(-1)


def episode(ad, td0, seqs=None, tag="rand"):
    """Run one mask-confined batched episode on the real env, checking every clause; returns the trace or None."""
    env, n = ad.env, ad.name
    B, q, allowed = td0.batch_size[0], ad.quota(td0), ad.allowed(td0)
    ar, S = torch.arange(B), torch.zeros_like(allowed)
    acts, masks, fin, prev = [], [], torch.zeros(B, dtype=torch.long), torch.zeros(B, dtype=torch.bool)

    def inp(b, **kw):
        return dict(env=n, cfg=ad.cfg, instance=td0[b], row=b, batch_size=B, quotas=q.tolist(),
                    actions_so_far=[[int(a[r]) for a in acts] for r in range(B)], **kw)

    # the TensorDict handed to reset is a container that TorchRL's reset fills with the state (reset returns the same object);
    # what must survive the episode is the STORAGE of the instance tensors it was given (rows / views of a dataset that
    # will be used again): no in-place write into them
    inst = td0.clone()
    orig = {k: inst[k] for k in inst.keys() if torch.is_tensor(inst[k])}
    td = lib(f"C02.{n}.reset-raises", lambda: env.reset(inst), lambda: inp(0))
    if td is None:
        return None
    cap, finished = int(q.max()) + 2, False
    for t in range(cap):
        mask = td["action_mask"].clone().bool()
        masks.append(mask)
        pre, exp = t < q, allowed & ~S
        for cls, bad in (("mask-offers-forbidden", mask & ~allowed), ("mask-offers-chosen", mask & allowed & S), ("mask-withholds-allowed", ~mask & exp)):
            rows = (bad.any(-1) & pre).nonzero().flatten().tolist()
            if rows:
                fail(f"C08.{n}.{cls}", f"step {t}: items {bad[rows[0]].nonzero().flatten().tolist()}", inp(rows[0], mask=mask[rows[0]].int().tolist()))
        dead = ~mask.any(-1)
        if dead.any():
            b = int(dead.nonzero()[0])
            fail(f"C02.{n}.dead-end", f"step {t}: row {b} (finished={bool(prev[b])}) has no feasible action while the batch is running", inp(b))
        a = torch.multinomial(mask.float() + dead[:, None].float(), 1, generator=RNG).squeeze(-1)
        if seqs is not None:
            for b in range(B):
                if t < len(seqs[b]):
                    a[b] = seqs[b][t]
        td.set("action", a)
        out = lib(f"C02.{n}.step-raises", lambda: env.step(td), lambda: inp(0, action=a.tolist()))
        if out is None:
            return None
        td = out["next"]
        acts.append(a)
        S = S.clone()
        S[ar, a] = True
        done = rowdone(ad, td["done"], B, inp)
        for cls, bad in (("C08.%s.done-before-quota", done & (t + 1 < q)), ("C02.%s.finished-becomes-unfinished", ~done & prev),
                         ("C08.%s.done-after-quota", ~done & ~prev & (t + 1 >= q))):
            if bad.any():
                b = int(bad.nonzero()[0])
                fail(cls % n, f"after step {t + 1} row {b} done={bool(done[b])}, quota={int(q[b])}", inp(b))
        for name, bad, what in ad.book(td, td0, S, t + 1 <= q):
            if bad.any():
                b = int(bad.nonzero()[0])
                fail(name, f"after step {t + 1}: {what}", inp(b, shown={k: td[k][b] for k in ("distances", "weights", "membership", "chosen", "keepout") if k in td.keys()}))
        fin = torch.where((fin == 0) & done, t + 1, fin)
        prev = done
        if bool(td["done"].all()):
            finished = True
            break
    if not finished:
        fail(f"C02.{n}.step-bound-exceeded", f"batch not finished after {cap} steps, max quota {int(q.max())}", inp(0))
    # history: the episode must leave the instance it was started from untouched, otherwise a second episode on the same
    # data starts from a different instance (forbidden cells / memberships / locations of the first one)
    for k, v in orig.items():
        if not torch.equal(v, td0[k]):
            fail(f"C08.{n}.episode-writes-into-instance-storage", f"the tensor given as '{k}' of the instance was modified in place during the episode", inp(0, key=k, after=v[0]))
    A = torch.stack(acts, 1)
    T = A.shape[1]
    for b in range(B):
        sel = A[b, : int(q[b])].tolist()
        if len(set(sel)) != len(sel) or not bool(allowed[b, sel].all()):
            fail(f"C08.{n}.selected-forbidden-or-duplicate", f"first quota actions {sel}", inp(b))
        REP.case((n, repr(sorted(ad.cfg.items())), tag, B, b, tuple(A[b].tolist()), repr(td0[b].get("locs" if n == "flp" else "membership" if n == "mcp" else "action_mask").tolist())))

    def rclause(e):
        one = n == "mdpp" and isinstance(e, TypeError) and "0-d" in str(e) and bool((ad.probes(td0).sum(-1) == 1).any())
        return "C03.mdpp.single-probe.get_reward-raises" if one else f"C03.{n}.get_reward-raises"

    R = lib(rclause, lambda: env.get_reward(td, A), lambda: inp(0, actions=A.tolist()))
    if R is not None and R.numel() != B:
        fail(f"C03.{n}.reward-shape", f"reward shape {list(R.shape)} for {B} rows", inp(0))
        R = None
    padded = torch.zeros(B, dtype=torch.bool)
    if R is not None:
        R = R.reshape(B).double()
        for b in range(B):
            want = ad.reward(td0, b, A[b, : int(q[b])].tolist())
            tol = 3e-5 + 1e-4 * abs(want) if n in ("dpp", "mdpp") else 1e-5 + 1e-5 * abs(want)
            if abs(float(R[b]) - want) <= tol:
                continue
            padded[b] = T > int(q[b])
            if padded[b] and abs(float(R[b]) - ad.reward(td0, b, A[b].tolist())) <= tol:
                fail(f"C04.{n}.mixed-quota.post-finish-padding-changes-reward", f"reward {float(R[b]):.6f} is the objective of all {T} selections, "
                     f"the row's own {int(q[b])} selections give {want:.6f}", inp(b, actions=A[b].tolist()))
            else:
                fail(f"C03.{n}.reward-mismatch", f"reported {float(R[b]):.6f}, recomputed {want:.6f}", inp(b, actions=A[b].tolist()))
    return dict(A=A, masks=masks, fin=fin, R=R, q=q, padded=padded, T=T)


def independence(ad, td0, tr, alone):
    """C04: replay rows alone and in a reversed batch with a duplicate of row 0; compare with the trace `tr`."""
    B, n = td0.batch_size[0], ad.name
    comps = [([b], "alone") for b in alone] + ([(list(range(B))[::-1] + [0], "reversed+dup")] if B > 1 else [])
    for idx, tag in comps:
        sub = td0[torch.tensor(idx)]
        keep = [int(tr["q"][b]) if tag == "alone" else tr["T"] for b in idx]
        tr2 = episode(ad, sub, seqs=[tr["A"][b, :k].tolist() for b, k in zip(idx, keep)], tag=tag)
        if tr2 is None:
            continue
        for pos, b in enumerate(idx):
            qb = int(tr["q"][b])
            inp = dict(env=n, cfg=ad.cfg, instance=td0[b], composition=tag, rows=idx, quotas=tr["q"].tolist(), actions=tr["A"][b].tolist())
            for t in range(min(qb, len(tr2["masks"]), len(tr["masks"]))):
                if not torch.equal(tr2["masks"][t][pos], tr["masks"][t][b]):
                    fail(f"C04.{n}.mask-depends-on-batch", f"step {t}: mask of row {b} differs between batch and {tag}", inp)
                    break
            if int(tr2["fin"][pos]) != int(tr["fin"][b]):
                fail(f"C04.{n}.finish-step-depends-on-batch", f"row {b} finishes at {int(tr['fin'][b])} in batch, {int(tr2['fin'][pos])} {tag}", inp)
            if tr["R"] is not None and tr2["R"] is not None and not (tr["padded"][b] or tr2["padded"][pos]):
                r1, r2 = float(tr["R"][b]), float(tr2["R"][pos])
                if abs(r1 - r2) > 1e-6 * max(1.0, abs(r1)):
                    fail(f"C04.{n}.reward-depends-on-batch", f"row {b}: reward {r1} in batch, {r2} {tag}", inp)


def run(ad, td0, seqs=None, tag="rand", alone=3):
    tr = episode(ad, td0, seqs, tag)
    if tr is not None:
        B = td0.batch_size[0]
        independence(ad, td0, tr, torch.randperm(B, generator=RNG)[:alone].tolist())


def all_orders(items, q):
    return [list(p) for p in itertools.permutations(items, q)]


# ------------------------------------------------------------------ case generation ------------------------------------
def gen_mcp(ad, B):
    for _ in range(30):  # MCPGenerator raises when the sampled max set size is below max_size (outside the clauses here)
        try:
            return ad.env.generator(batch_size=[B])
        except RuntimeError:
            continue
    return None


def check_flp(thorough):
    for n in (2, 3, 5, 8) + ((12, 20) if thorough else ()):
        for q in sorted({1, max(1, n // 2), n}):
            ad = FLP(n, q)
            for r in range(K):
                td0 = ad.env.generator(batch_size=[5])
                if r % 2:  # ties: duplicate and collinear locations
                    td0["locs"][:, 1] = td0["locs"][:, 0]
                    td0["locs"][0] = torch.linspace(0, 1, n)[:, None].expand(n, 2)
                    td0["orig_distances"] = FLP.dist(td0).float()
                run(ad, td0, tag=f"uniform-q{q}")
                td0 = td0.clone()
                td0["to_choose"] = torch.randint(1, n + 1, (5,), generator=RNG)
                run(ad, td0, tag="mixed-quota")
    for n in (4, 5) if thorough else (4,):  # exhaustive: every ordered selection, one batch per quota and one mixed batch
        ad = FLP(n, 1)
        base = ad.env.generator(batch_size=[1])
        seqs = [s for q in range(1, n + 1) for s in all_orders(range(n), q)]
        for q in range(1, n + 1):
            sq = [s for s in seqs if len(s) == q]
            td0 = base.expand(len(sq)).clone()
            td0["to_choose"] = torch.full((len(sq),), q)
            run(ad, td0, sq, tag="exhaustive", alone=4)
        td0 = base.expand(len(seqs)).clone()
        td0["to_choose"] = torch.tensor([len(s) for s in seqs])
        run(ad, td0, seqs, tag="exhaustive-mixed", alone=4)


def check_mcp(thorough):
    for ni, ns, W in ((3, 2, 2), (6, 4, 3), (10, 6, 4)) + (((30, 12, 6),) if thorough else ()):
        for q in sorted({1, max(1, ns // 2), ns}):
            ad = MCP(ni, ns, q, 1, W)
            for r in range(K):
                tds = [gen_mcp(ad, 5), mcp_instances(5, ni, ns, W, [q] * 5)]
                for td0 in [t for t in tds if t is not None]:
                    run(ad, td0, tag=f"uniform-q{q}")
                run(ad, mcp_instances(5, ni, ns, W, torch.randint(1, ns + 1, (5,), generator=RNG).tolist()), tag="mixed-quota")
                run(ad, mcp_instances(1, ni, ns, W, [q]), tag="batch1", alone=0)
    for ns in (4, 5) if thorough else (4,):
        ad = MCP(5, ns, 1, 1, 3)
        base = mcp_instances(2, 5, ns, 3, [1, 1])[1:2]
        seqs = [s for q in range(1, ns + 1) for s in all_orders(range(ns), q)]
        for q in range(1, ns + 1):
            sq = [s for s in seqs if len(s) == q]
            td0 = base.expand(len(sq)).clone()
            td0["n_sets_to_choose"] = torch.full((len(sq), 1), float(q))
            run(ad, td0, sq, tag="exhaustive", alone=4)
        td0 = base.expand(len(seqs)).clone()
        td0["n_sets_to_choose"] = torch.tensor([float(len(s)) for s in seqs])[:, None]
        run(ad, td0, seqs, tag="exhaustive-mixed", alone=4)


def check_dpp(cls, thorough):
    multi = cls is MDPP
    kws = [dict(reward_type="minmax"), dict(reward_type="meansum")] if multi else [{}]
    for data, n, q, kmax in (("g3", 3, 2, 3), ("g3", 3, 3, 2), ("g4", 4, 4, 5), ("c4", 4, 3, 6), ("c4", 4, 1, 6)):
        for kw in kws:
            ad = cls(data, q, kmax, **kw)
            for r in range(K):
                if n * n - 1 - (3 if multi else 0) - (kmax - 1) >= q:  # the real generator (guaranteed feasible configs only)
                    run(ad, ad.env.generator(batch_size=[4]), tag="generator", alone=2)
                run(ad, dpp_instances(ad, 4, n, multi), tag="handmade", alone=2)
                run(ad, dpp_instances(ad, 1, n, multi), tag="batch1", alone=0)
            if multi:
                run(ad, dpp_instances(ad, 2, n, multi, nprobes=1), tag="single-probe", alone=1)
    for q in (1, 2, 3) if thorough else (1, 2):  # exhaustive: all orders over the allowed cells of one 3x3 layout
        for kw in kws:
            ad = cls("g3", q, 3, **kw)
            base = dpp_instances(ad, 2, 3, multi, nprobes=2)[1:2]
            seqs = all_orders(ad.allowed(base)[0].nonzero().flatten().tolist(), q)
            run(ad, base.expand(len(seqs)).clone(), seqs, tag="exhaustive", alone=3)


def main():
    global REP, K
    thorough = ARGS.tier == "thorough"
    K = 40 if thorough else 5  # repetitions (fresh instances and orders) per configuration
    torch.set_num_threads(2)
    torch.manual_seed(ARGS.seed)
    np.random.seed(ARGS.seed)
    RNG.manual_seed(ARGS.seed)
    REP = _lib.Report(
        bound=("FLPEnv: num_loc in {2,3,5,8}" + ("+{12,20}" if thorough else "") + ", quota in {1,n//2,n} and per-row random quotas, batches of 5 "
               "generator instances (+ duplicate/collinear locations), random mask-admitted orders; exhaustive: ALL ordered selections of every "
               "quota 1..n on one instance for n=4" + ("/5" if thorough else "") + ", per-quota batches and one mixed-quota batch. "
               "MCPEnv: (items,sets,max_size) in {(3,2,2),(6,4,3),(10,6,4)}" + ("+(30,12,6)" if thorough else "") + ", same quota scheme, generator and "
               "hand-made memberships (zero padding anywhere, empty sets, repeated items), batch sizes 1 and 5; exhaustive for 4" + ("/5" if thorough else "") +
               " sets. DPPEnv/MDPPEnv (minmax+meansum): SYNTHETIC PDN data only (3x3/4x4 grid, 3 frequencies, real and complex), max_decaps in "
               "{1,2,3,4}, generator + hand-made keep-out/probe layouts (1-4 probes), batch sizes 1,2,4; exhaustive: all orders of " +
               ("1..3" if thorough else "1..2") + " decaps over the allowed cells of a 3x3 layout. Every batch is replayed alone (<=4 rows) and reversed "
               "with a duplicated row. Precondition 1<=quota<=#allowed. seed=%d, %d repetitions (fresh instances+orders) per config." % (ARGS.seed, K)),
        rule="case = (env, config, instance data, executed action row, batch composition tag/size/position); distinct = distinct such tuples")
    tmp = tempfile.mkdtemp(prefix="standin_select_")
    atexit.register(shutil.rmtree, tmp, ignore_errors=True)
    os.chdir(tmp)
    REP.guard(lambda: [write_data("data/dpp", 8, 100), write_data("g3", 3, 101), write_data("g4", 4, 102), write_data("c4", 4, 103, cplx=True)], "synthetic data")
    jobs = [("flp", lambda: check_flp(thorough)), ("mcp", lambda: check_mcp(thorough)),
            ("dpp", lambda: check_dpp(DPP, thorough)), ("mdpp", lambda: check_dpp(MDPP, thorough))]
    for name, job in jobs:
        if not ARGS.only or name in ARGS.only.split(","):
            REP.guard(job, name)
    return REP.finish()


if __name__ == "__main__":
    sys.exit(main())
