#!/usr/bin/env python
"""Bounded stand-in (C01 C02 C03 C05 C06): brute-force check of the rl4co routing environments against independent oracles.

Envs (rl4co/envs/routing/*/env.py): TSP, ATSP, CVRP, CVRPTW, SDVRP, SVRP, OP, PCTSP, SPCTSP, PDP (free / forced depot start), mTSP (minmax, sum),
MDCPDP (minsum, minmax, lateness, lateness_square; 1 and 2 depots; generator format capacity [B,1] and per-depot capacity), MTVRP variants CVRP, OVRP,
VRPB, VRPL, VRPTW, OVRPBLTW. Envs are built with check_solution=False; the checker is called separately.

Method. For every instance ALL action sequences admitted by `action_mask` are enumerated from `reset` (level-by-level DFS frontier: each row of the
stepped batch is the same instance in a different state; finished rows stay in the batch and are padded with their first offered action until the last
row finishes). Sampled complete sequences are replayed at batch size 1 ("solo") and in mixed batches of 2-3 different instances (padding after
finishing). The oracles (classes VRP / Perm / MDCPDP) are float64 state machines written from the problem definitions on the original instance data;
they never call the library. `brute` enumerates ALL action sequences with the oracle alone.

Clauses, named "<prop>.<env config>.<class>[@<hand-made instance>]" (oracle in brackets):
 C01 infeasible-<why>     every completed mask-confined sequence is feasible [oracle replay: each customer once / demand fully served, load<=capacity,
                          service start within the window with waiting and reset at the depot, pickup before delivery, skill<=technician, OP length
                          incl. return<=max_length, route limit, linehaul before backhaul, open routes, PCTSP prize>=1 or all visited, mTSP<=num_agents
                          subtours, MDCPDP same vehicle and carried orders<=capacity]
 C02 dead-end, finished-row-no-action, finished-became-unfinished, step-bound, step-raises[-on-padding], replay-*.done-mismatch
                          every reachable unfinished state offers an action, finished rows keep one and stay finished, episode length <= bound
                          [n | 2n+1 | 2(n+vehicle loads)+1 | n+2 | n+agents-1 | n+techs | n+2*depots]
 C03 reward-at-done, reward-after-padding, reward-shape, reward-raises, replay-<solo|mixed>.reward*
                          env.get_reward(td, actions) == oracle objective (1e-4 relative) with shape [batch] [closed tour length, open routes not charged
                          for the return, OP prize, PCTSP length+penalties of unvisited, SVRP cost-weighted length, mTSP longest / summed subtour,
                          MDCPDP per-depot lengths / lateness]
 C05 exact-<fill|tw|len|prize|skill>-hidden, feasible-hidden[-<class>], optimum-unreachable, replay-*.action-not-offered
                          canonical set of mask-reachable solutions == set of ALL feasible solutions [brute] modulo the documented pruning of
                          consecutive depot visits; best mask-reachable objective == brute-force optimum
 C06 rejects-mask-solution:<msg>, rejects-feasible:<msg>, accepts-<fault>, replay-*.rejects-feasible:<msg>
                          check_solution_validity accepts every mask-generated and every brute-force feasible solution (with and without final depot
                          return) and raises for every single-edit corruption (delete / adjacent swap / substitute / insert) that the oracle
                          classifies infeasible by more than 1e-3 [fault = dup, missing, missing-truncated, cap, tw, prec, depot, len, prize, skill, order]
Tolerances: on generator (float) instances solutions whose tightest constraint slack is within 1e-5 (SDVRP residues 1e-6) are ambiguous and ignored by
C05; hand-made instances use dyadic 3-4-5 grid coordinates / integer data, so equality is exact and a slack-0 solution must be offered.
Bound: see `bound` in main (sizes, instances, seeds per tier). KNOWN lists confirmed defects of the unchanged library (reported via rep.known).
"""
import math
import os
import sys

sys.path.insert(0, os.path.dirname(os.path.abspath(__file__)))
import _lib  # noqa: E402

_lib.setup_path()
import logging  # noqa: E402

import torch  # noqa: E402
from tensordict import TensorDict  # noqa: E402

logging.disable(logging.WARNING)
from rl4co.envs import routing as R  # noqa: E402

INF, TOL = float("inf"), 1e-5
KNOWN = {}  # clause name -> confirmed defect of the unchanged library (failing input / config)


def known(desc, *names):
    KNOWN.update({n: desc for n in names})


_MD = [f"mdcpdp-{m}-{d}depot" for m in ("minsum", "minmax", "lateness", "lateness_square") for d in (1, 2)]
_RW = ("reward-at-done", "replay-solo.reward", "replay-mixed.reward")
known("checker sizes the tour from len(actions): a shorter permutation of 0..k-1 is accepted, e.g. actions [0,1,2] on 4 nodes (PDP: [1] on 1 pair)",
      *[f"C06.{e}.accepts-missing-truncated" for e in ("tsp", "atsp", "pdp", "pdp-forced")])
known("SDVRP checker needs a depot visit: mask-generated single route [1,2,3] (total demand <= capacity) raises 'All demand must be satisfied'",
      *[f"C06.sdvrp.{c}:all-demand-must-be-satisfied" for c in ("rejects-mask-solution", "rejects-feasible", "replay-solo.rejects-feasible", "replay-mixed.rejects-feasible")])
known("CVRPTW checker truncates arrival with .int(): depot(0,0) c1(3,.5) c2(0,4) window end 7, [1,2,0,3,0] reaches c2 at 7.65, accepted", "C06.cvrptw.accepts-tw")
known("CVRPTW checker reads the depot deadline of batch row 0 for all rows: batch [max_time 40, max_time 480] rejects valid rows",
      "C06.cvrptw.replay-mixed.rejects-feasible:vehicle-cannot-perform-service-and")
known("SDVRP float32: demands 2,6,4 / capacity 12, single route [1,2,3] fills the vehicle exactly but leaves a residue 3e-8 at customer 3: not done, extra trip [1,2,3,0,3] forced",
      "C01.sdvrp.infeasible-dup@thirds-12", "C05.sdvrp.exact-fill-hidden@thirds-12", "C05.sdvrp.optimum-unreachable@thirds-12")
known("CVRP mask float32: demands 8,6,2,4 / capacity 20, after [1,2,3] customer 4 (exact fill) is masked (0.8000001+0.2 > 1)", "C05.cvrp.exact-fill-hidden@exact-fill-20")
known("SVRP mask forbids leaving the depot idle: a technician that can serve someone cannot be skipped, cheaper solutions such as [0,1,2,0,3] are unreachable",
      *[f"C05.svrp.{c}{a}" for c in ("feasible-hidden-skip-technician", "optimum-unreachable") for a in ("", "@skip-tech", "@tech0-all") if (c[0], a) != ("o", "@tech0-all")])
known("SVRP checker never checks the segment after the last depot visit: techs [1,2,3], skills [1,2,3], actions [1,2,3] accepted", "C06.svrp.accepts-skill")
known("OP reset subtracts 1e-6 from max_length: a tour of length exactly max_length (grid tour 1.75) is masked", "C05.op.exact-len-hidden@len-equality", "C05.op.optimum-unreachable@len-equality")
known("mTSP minmax: a padding depot step after done re-adds the return leg; reward has shape () at batch size 1",
      "C03.mtsp-minmax.reward-after-padding", "C03.mtsp-minmax.replay-mixed.reward", "C03.mtsp-minmax.replay-solo.reward-shape")
known("mTSP cost_type='sum': get_reward raises unless len(actions)==num_loc, else returns the closed loop over the action list instead of the sum of subtours",
      *[f"C03.mtsp-sum.{c}" for c in _RW + ("reward-raises", "replay-solo.reward-raises", "replay-mixed.reward-raises")])
known("MDCPDP: final return leg missing at done; batched step lengths of all rows taken from row 0 ([B,1] vs [B] broadcast); current_depot never advances to a "
      "newly started depot (lengths / capacity of the previous depot used)", *[f"C03.{e}.{c}{x}" for e in _MD if "square" not in e for c in _RW for x in ("", "-last-return-leg-missing")
        if (c, x) != ("replay-solo.reward", "") or ("2depot" in e and "minsum" not in e)])
known("MDCPDP reward_mode='lateness_square' (documented) raises NotImplementedError",
      *[f"C03.{e}.{c}" for e in _MD if "square" in e for c in ("reward-raises", "replay-solo.reward-raises", "replay-mixed.reward-raises")])
known("MDCPDP infers num_depot from capacity.shape[-1] but the generator emits capacity [B,1]: with num_depot=2 the second depot is treated as a pickup "
      "(mask-confined [0,1,2,3] switches depot with an open route); with per-depot capacity the new depot's capacity is never used",
      *[f"{c}.{e}.{x}" for e in _MD if "2depot" in e for c, x in (("C01", "infeasible-depot"), ("C01", "infeasible-depot@gen-format-cap1"), ("C05", "feasible-hidden"),
        ("C05", "exact-fill-hidden@gen-format-cap1"), ("C05", "exact-fill-hidden@per-depot-cap"), ("C05", "optimum-unreachable"), ("C05", "optimum-unreachable@gen-format-cap1"),
        ("C05", "optimum-unreachable@per-depot-cap")) if ("minmax", x) != (e.split("-")[1], "optimum-unreachable@per-depot-cap")])
known("MTVRP mask uses strict '<' on window ends (checker '<='): arrival exactly at the window end is masked; if that is the only way to serve a customer the episode never ends",
      *[f"C05.mtvrp-{v}.exact-{c}-hidden@{a}" for v, a in (("vrptw", "grid-equalities"), ("vrptw", "tw-equality-only"), ("ovrpbltw", "grid-equalities")) for c in ("tw", "fill+tw") if (v, c) != ("ovrpbltw", "tw")],
      "C02.mtvrp-vrptw.step-bound@tw-equality-only", "C05.mtvrp-vrptw.optimum-unreachable@tw-equality-only",
      "C05.mtvrp-vrptw.optimum-unreachable@grid-equalities", "C05.mtvrp-ovrpbltw.optimum-unreachable@grid-equalities")
known("MTVRP checker does not check linehaul-before-backhaul: [.., backhaul, linehaul, ..] in one route accepted", "C06.mtvrp-vrpb.accepts-order", "C06.mtvrp-ovrpbltw.accepts-order")
known("MTVRP checker compares used_cap [B] with vehicle_capacity [B,1] (broadcast [B,B]): a batch with capacities [7,1] rejects valid rows",
      *[f"C06.mtvrp-{v}.replay-mixed.rejects-feasible:used-more-than-capacity-for" for v in ("cvrp", "ovrp", "vrpb", "vrpl", "vrptw", "ovrpbltw")])


# ----------------------------------------------------------------------------------------------------- oracles
def tight(st, slack, why):  # record the tightest numeric constraint(s) of a state
    if slack < st["slack"] - 1e-9:
        st["slack"], st["why"] = slack, why
    elif slack <= st["slack"] + 1e-9:
        st["why"] = "+".join(sorted(set(st["why"].split("+") + [why]) - {""}))


class Oracle:  # interface defaults
    def finalize(s, st): return st if s.complete(st) else "missing"
    def prune(s, st, a): return False
    def forms(s, c): return [list(c)]  # action sequences encoding canonical solution c (for the checker)
    def hidden_class(s, c): return ""
    def explain(s, st, r): return ""  # failure class of a reward mismatch (for clause names)


class VRP(Oracle):
    """Depot routing: node 0 = depot, a route = maximal run of customers between depot visits (final return implicit)."""

    def __init__(s, kind, D, **f):
        s.kind, s.D, s.n, s.na, g = kind, D, len(D) - 1, len(D), f.get
        s.dem, s.cap, s.bh, s.split = g("dem"), g("cap", INF), g("bh"), g("split", False)
        s.tw, s.svc, s.speed, s.lim, s.open = g("tw"), g("svc"), g("speed", 1.0), g("lim", INF), g("open", False)
        s.skill, s.tech, s.cost, s.agents, s.minmax = g("skill"), g("tech"), g("cost"), g("agents"), g("minmax", False)
        s.prize, s.pen, s.maxlen, s.need, s.ends = g("prize"), g("pen"), g("maxlen", INF), g("need", 0), kind in ("op", "pctsp", "spctsp")
        loads, s.exact = math.ceil(sum(s.dem) / s.cap - 1e-9) if s.split else 0, False  # exact: set by main for hand-made instances
        s.bound = s.n + 2 if s.ends else s.n + len(s.tech) if s.tech else s.n + s.agents - 1 if s.agents else 2 * (s.n + loads) + 1

    def init(s):
        return dict(pos=0, vis=frozenset(), rem=tuple(s.dem) if s.split else (), load=0.0, loadb=0.0, t=0.0, rlen=0.0, k=0, bhs=False, total=0.0,
                    worst=0.0, prize=0.0, closed=False, slack=INF, why="")

    def served(s, st): return all(r <= s.eps() for r in st["rem"][1:]) if s.split else len(st["vis"]) == s.n
    def eps(s): return 1e-9 if s.exact else 1e-6  # SDVRP: residual demand / free capacity below this is rounding noise (ambiguous on float instances)
    def complete(s, st): return st["closed"] if s.ends else s.served(st)

    def step(s, st, a):
        st = dict(st)
        if st["closed"] or (a == 0 and st["pos"] == 0 and not s.ends and (s.served(st) or not s.tech)):
            return st if a == 0 else "move-after-end"  # padding / pointless stay at the depot
        d, k = s.D[st["pos"]][a], st["k"]
        c = s.cost[min(k, len(s.cost) - 1)] if s.cost else 1.0
        if s.tech and k >= len(s.tech):
            return "skill"  # no technician left
        if a == 0:  # end of a route (SVRP: hands over to the next technician; OP / PCTSP: end of the tour)
            if not s.open:
                st.update(total=st["total"] + d * c, rlen=st["rlen"] + d, t=st["t"] + d / s.speed)
                tight(st, s.lim - st["rlen"], "len")
                if s.tw:
                    tight(st, s.tw[0][1] - st["t"], "tw")
            if s.ends:
                tight(st, s.maxlen - st["total"], "len")
                if s.need and len(st["vis"]) < s.n:
                    tight(st, st["prize"] - s.need, "prize")
            st.update(pos=0, k=k + 1, load=0.0, loadb=0.0, t=0.0, rlen=0.0, bhs=False, closed=s.ends, worst=max(st["worst"], st["rlen"]))
            return st
        if s.split:  # deliver as much as possible
            rem, free = list(st["rem"]), s.cap - st["load"]
            if (rem[a] <= s.eps() or free <= s.eps()) and s.exact:
                return "dup" if rem[a] <= s.eps() else "cap"  # nothing left to deliver there / full vehicle
            if abs(rem[a] - free) <= 1e-6:
                tight(st, abs(rem[a] - free), "cap")  # delivery that exactly fills the vehicle
            q = max(0.0, min(rem[a], free))
            rem[a] -= q
            st["rem"], st["load"] = tuple(rem), st["load"] + q
        else:
            if a in st["vis"]:
                return "dup"
            st["vis"] = st["vis"] | {a}
            if s.dem and s.dem[a] > 0:
                if st["bhs"]:
                    return "order"  # linehaul after a backhaul in the same route
                st["load"] += s.dem[a]
                tight(st, s.cap - st["load"], "cap")
            if s.bh and s.bh[a] > 0:
                st["bhs"], st["loadb"] = True, st["loadb"] + s.bh[a]
                tight(st, s.cap - st["loadb"], "cap")
        if s.tw:
            st["t"] += d / s.speed
            tight(st, s.tw[a][1] - st["t"], "tw")
            st["t"] = max(st["t"], s.tw[a][0]) + s.svc[a]
        st.update(rlen=st["rlen"] + d, total=st["total"] + d * c, pos=a, prize=st["prize"] + (s.prize[a] if s.prize else 0))
        if s.lim < INF:
            tight(st, s.lim - st["rlen"] - (0 if s.open else s.D[a][0]), "len")
        if s.tech:
            tight(st, s.tech[k] - s.skill[a], "skill")
        if s.agents:
            tight(st, s.agents - k - 1, "agents")
        return st

    def finalize(s, st): return "missing" if not s.complete(st) else s.step(st, 0) if (not s.ends and st["pos"] != 0) else st

    def obj(s, st):
        if s.ends:
            return st["prize"] if s.kind == "op" else -(st["total"] + sum(s.pen[i] for i in range(1, s.n + 1) if i not in st["vis"]))
        return -st["worst"] if s.minmax else -st["total"]

    def prune(s, st, a):  # documented pruning: no pointless stay at the depot (SVRP: staying = next technician, not pruned)
        return (a == 0 and st["pos"] == 0 and not s.ends and not s.tech) or (s.split and a != 0 and min(s.cap - st["load"], st["rem"][a]) <= s.eps())  # (SDVRP: nothing to deliver)

    def canon(s, seq):
        q = [a for a in seq if a] if s.ends else list(seq)
        while q and q[-1] == 0:
            q.pop()
        return tuple(q) if s.tech or s.ends else tuple(a for i, a in enumerate(q) if a or (i and q[i - 1]))

    def forms(s, c): return [list(c) + [0]] if s.ends else [list(c), list(c) + [0]]

    def hidden_class(s, c):
        if s.tech:  # a technician that could serve an open customer is skipped
            open_, segs = set(range(1, s.n + 1)), [[]]
            for a in c:
                segs = segs + [[]] if a == 0 else segs[:-1] + [segs[-1] + [a]]
            for k, seg in enumerate(segs):
                if not seg and any(s.skill[j] <= s.tech[k] for j in open_):
                    return "-skip-technician"
                open_ -= set(seg)
        return ""


class Perm(Oracle):
    """TSP / ATSP (closed tour over all nodes) and PDP (depot 0, pickups 1..h, deliveries h+1..2h, one tour)."""

    def __init__(s, kind, D, force=False):
        s.kind, s.D, s.n, s.na, s.force, s.h = kind, D, len(D), len(D), force, (len(D) - 1) // 2
        s.bound = s.n if (kind != "pdp" or force) else s.n - 1

    def init(s): return dict(seq=(), slack=INF, why="")

    def step(s, st, a):
        q = st["seq"]
        if a in q:
            return "dup"
        if s.kind == "pdp" and ((a == 0) != (s.force and not q) or (a > s.h and a - s.h not in q)):
            return "depot" if (a == 0) != (s.force and not q) else "prec"
        return dict(st, seq=q + (a,))

    def complete(s, st): return len(st["seq"]) == s.bound

    def obj(s, st):
        q = st["seq"] if (s.kind != "pdp" or s.force) else (0,) + st["seq"]
        return -sum(s.D[q[i]][q[(i + 1) % len(q)]] for i in range(len(q)))

    def canon(s, seq): return tuple(seq[: s.bound])


class MDCPDP(Oracle):
    """Depots 0..nd-1 (one vehicle each), pickups nd..nd+h-1, deliveries nd+h..; a depot action starts that vehicle (first
    visit) or returns it (second visit, implicit for the last route); orders are delivered by the vehicle that picked them up."""

    def __init__(s, D, nd, cap, mode, w):
        s.kind, s.D, s.nd, s.na, s.h, s.cap, s.mode, s.w = "mdcpdp", D, nd, len(D), (len(D) - nd) // 2, cap, mode, w
        s.n, s.bound = len(D) - nd, len(D) + nd

    def init(s): return dict(cur=None, started=frozenset(), vis=frozenset(), carry=frozenset(), pos=None, rlen=0.0, lens=(), late=0.0, routes=(), slack=INF, why="")
    def complete(s, st): return len(st["vis"]) == s.n and len(st["started"]) == s.nd

    def step(s, st, a):
        st = dict(st)
        if a < s.nd:
            if st["cur"] is None:
                if a in st["started"]:
                    return st if s.complete(st) else "dup"  # padding after the end
                return dict(st, cur=a, pos=a, rlen=0.0, started=st["started"] | {a}, routes=st["routes"] + ((a,),))
            if a != st["cur"] or st["carry"]:
                return "depot" if a != st["cur"] else "prec"  # switching depot with an open route / back with undelivered orders
            return dict(st, cur=None, pos=a, lens=st["lens"] + (st["rlen"] + s.D[st["pos"]][a],))
        if st["cur"] is None or a in st["vis"]:
            return "depot" if st["cur"] is None else "dup"
        if a < s.nd + s.h:
            st["carry"] = st["carry"] | {a}
            tight(st, s.cap[st["cur"]] - len(st["carry"]), "cap")
        elif a - s.h not in st["carry"]:
            return "prec"
        st["rlen"] += s.D[st["pos"]][a]
        if a >= s.nd + s.h:
            st["carry"], st["late"] = st["carry"] - {a - s.h}, st["late"] + st["rlen"]
        return dict(st, pos=a, vis=st["vis"] | {a}, routes=st["routes"][:-1] + (st["routes"][-1] + (a,),))

    def finalize(s, st): return "missing" if not s.complete(st) else s.step(st, st["cur"]) if st["cur"] is not None else st

    def obj(s, st):
        tot = sum(st["lens"])
        return -(max(st["lens"]) if s.mode == "minmax" else tot if s.mode == "minsum" else (1 - s.w) * tot + s.w * st["late"])

    def canon(s, seq):
        st = replay(s, seq, False)
        return ("invalid",) + tuple(seq) if isinstance(st, str) else frozenset(r for r in st["routes"] if len(r) > 1)

    def forms(s, c): return []

    def explain(s, st, r):
        last = s.D[st["routes"][-1][-1]][st["routes"][-1][0]]
        alt = dict(st, lens=st["lens"][:-1] + (st["lens"][-1] - last,))
        return "-last-return-leg-missing" if last > 1e-6 and close(r, s.obj(alt)) else ""


def replay(P, seq, fin=True):
    st = P.init()
    for a in seq:
        st = P.step(st, a)
        if isinstance(st, str):
            return st
    return P.finalize(st) if fin else st


def brute(P, tol):
    """All feasible complete solutions by DFS over ALL action sequences (oracle state machine only) -> {canon: (obj, slack, why, seq)}."""
    out = {}

    def rec(st, seq):
        if P.complete(st):
            f = P.finalize(st)
            if not isinstance(f, str) and f["slack"] >= -tol:
                out.setdefault(P.canon(seq), (P.obj(f), f["slack"], f["why"], seq))
        elif len(seq) <= P.bound + 2:
            for a in range(P.na):
                t = None if P.prune(st, a) else P.step(st, a)
                if isinstance(t, dict) and t["slack"] >= -tol:
                    rec(t, seq + [a])

    rec(P.init(), [])
    return out


# ----------------------------------------------------------------------------------------------------- engine
class Ctx:
    def __init__(s, rep, args):
        s.rep, s.prop, s.count = rep, args.prop, {}

    def V(s, name, what, **inp):
        s.count[name] = s.count.get(name, 0) + 1
        if (s.prop and not name.startswith(s.prop)) or s.count[name] > 2:  # at most 2 witnesses per clause
            return
        (s.rep.known if name in KNOWN else s.rep.violation)(name, what, {k: v for k, v in inp.items() if k != "at"})


def slug(e): return "-".join("".join(ch if ch.isalpha() else " " for ch in str(e).lower()).split()[:5]) or type(e).__name__
def flat(x): return x.reshape(x.shape[0], -1)[:, 0]
def close(r, o): return abs(r - o) <= 1e-4 * max(1.0, abs(o))
def pick(xs, k): return xs if len(xs) <= k else [xs[i * (len(xs) - 1) // (k - 1)] for i in range(k)]  # k evenly spread elements


def stepped(env, td, idx, acts):
    nxt = td[torch.tensor(idx)]
    nxt["action"] = torch.tensor(acts)
    return env.step(nxt)["next"]


def explore(cx, name, env, raw, P, inp, checker):
    """Enumerate all mask-admitted sequences from reset; returns {canon: action sequence at done}."""
    td, seqs, fin, sols, level = env.reset(raw.clone()), [[]], [None], {}, 0
    while any(f is None for f in fin):
        if level > P.bound:
            cx.V(f"C02.{name}.step-bound{inp['at']}", f"unfinished after {level} steps (bound {P.bound})", **inp, actions=seqs[fin.index(None)])
            break
        idx, acts = [], []
        for i, m in enumerate(td["action_mask"]):
            opts = m.nonzero().flatten().tolist()
            if fin[i] is not None:
                if not opts:
                    cx.V(f"C02.{name}.finished-row-no-action", "finished row offered no action while others run", **inp, actions=seqs[i])
                opts = opts[:1] or [0]
            elif not opts:
                cx.V(f"C02.{name}.dead-end{inp['at']}", "unfinished state with all actions masked", **inp, actions=seqs[i])
            idx += [i] * len(opts)
            acts += opts
        if not idx:
            break
        pad = [fin[i] is not None for i in idx]
        try:
            nxt = stepped(env, td, idx, acts)
        except Exception as e:  # retry without the finished (padding) rows
            if not any(pad):
                cx.V(f"C02.{name}.step-raises", f"env.step raised {type(e).__name__}: {e}", **inp, actions=[seqs[i] + [a] for i, a in zip(idx, acts)][:3])
                break
            j = pad.index(True)
            cx.V(f"C02.{name}.step-raises-on-padding", f"env.step raised {type(e).__name__}: {e} when a finished row takes its offered action", **inp, actions=seqs[idx[j]] + [acts[j]])
            idx, acts = [i for i, p in zip(idx, pad) if not p], [a for a, p in zip(acts, pad) if not p]
            nxt = stepped(env, td, idx, acts)
        td, level = nxt, level + 1
        seqs, pfin, done = [seqs[i] + [a] for i, a in zip(idx, acts)], [fin[i] for i in idx], flat(td["done"]).tolist()
        fin = [pf if pf is not None else (level if d else None) for pf, d in zip(pfin, done)]
        for k, (pf, d) in enumerate(zip(pfin, done)):
            if pf is not None and not d:
                cx.V(f"C02.{name}.finished-became-unfinished", "done flag reset by a padding step", **inp, actions=seqs[k])
        new = [k for k, (pf, d) in enumerate(zip(pfin, done)) if pf is None and d]
        if new:
            judge(cx, name, env, td[torch.tensor(new)], [seqs[k] for k in new], P, inp, "at-done", checker, sols)
    padded = [k for k, f in enumerate(fin) if f is not None and f < level]
    if padded:
        judge(cx, name, env, td[torch.tensor(padded)], [seqs[k] for k in padded], P, inp, "after-padding", False, None)
    return sols


def judge(cx, name, env, td, seqs, P, inp, when, checker, sols):
    """C01 / C03 / C06 for a batch of completed sequences of equal length (td = their final states)."""
    try:
        r = env.get_reward(td, torch.tensor(seqs))
        if list(r.shape) != [len(seqs)]:
            cx.V(f"C03.{name}.reward-shape", f"reward shape {list(r.shape)} for batch {len(seqs)}", **inp, actions=seqs[0])
        r = r.reshape(-1).tolist() if r.numel() == len(seqs) else [None] * len(seqs)
    except Exception as e:
        cx.V(f"C03.{name}.reward-raises", f"get_reward raised {type(e).__name__}: {e} ({when})", **inp, actions=seqs[0])
        r = [None] * len(seqs)
    ok = []
    for k, (q, rq) in enumerate(zip(seqs, r)):
        cx.rep.case((name, inp["instance"], tuple(q), when))
        f = replay(P, q)
        if isinstance(f, str) or f["slack"] < -TOL:
            why = f if isinstance(f, str) else f["why"]
            cx.V(f"C01.{name}.infeasible-{why}{inp['at']}", f"mask-confined episode violates '{why}'" + ("" if isinstance(f, str) else f" by {-f['slack']:.3g}"), **inp, actions=q)
            continue
        if rq is not None and not close(rq, P.obj(f)):
            cx.V(f"C03.{name}.reward-{when}{P.explain(f, rq)}", f"get_reward={rq:.6f} oracle={P.obj(f):.6f}", **inp, actions=q)
        ok.append(k)
        if sols is not None:
            sols.setdefault(P.canon(q), q)
    if checker and ok:
        check_accepts(cx, env, td[torch.tensor(ok)], [seqs[k] for k in ok], inp, f"C06.{name}.rejects-mask-solution")


def check_accepts(cx, env, td, seqs, inp, clause):
    try:
        env.check_solution_validity(td, torch.tensor(seqs))
    except Exception:
        for k, q in enumerate(seqs):
            try:
                env.check_solution_validity(td[k : k + 1], torch.tensor([q]))
            except Exception as e:
                return cx.V(f"{clause}:{slug(e)}", f"checker raised {type(e).__name__}: {e} on a feasible solution", **inp, actions=q)


def compare(cx, name, P, sols, inp, exact):
    """C05: mask-reachable canonical set vs brute-force set."""
    bf, lo = brute(P, 0.0 if exact else TOL), (-1e-9 if exact else TOL)
    for c, (o, slack, why, q) in bf.items():
        istight = abs(slack) <= (1e-9 if exact else TOL)
        if c in sols or (istight and not exact) or slack < -1e-9:
            continue
        hc = P.hidden_class(c)
        cls = "feasible-hidden" + hc if hc or not istight else f"exact-{why.replace('cap', 'fill')}-hidden"
        cx.V(f"C05.{name}.{cls}{inp['at']}", f"feasible solution (slack {slack:.3g} on '{why}', objective {o:.5f}) not reachable through the mask", **inp, actions=q)
    sure = [(o, q) for o, slack, _, q in bf.values() if slack >= lo]
    got = [P.obj(replay(P, q)) for q in sols.values()]
    if sure and (not got or max(got) < max(sure)[0] - 1e-7):
        cx.V(f"C05.{name}.optimum-unreachable{inp['at']}", f"best mask-reachable objective {max(got) if got else None} < optimum {max(sure)[0]:.6f}", **inp, actions=max(sure)[1])
    return [c for c, v in bf.items() if v[1] > 1e-3 or (exact and v[1] >= -1e-9)]


def corrupt(cx, name, env, raw, P, feas, inp, budget):
    """C06: hand-built feasible solutions accepted, single-edit corruptions classified infeasible by the oracle rejected."""
    td0, seen, ends = env.reset(raw.clone()), set(), getattr(P, "ends", False)
    td2, nbatch = [None], {}
    for c in pick(feas, budget):
        for q in P.forms(c):
            cx.rep.case((name, inp["instance"], tuple(q), "hand-built"))
            check_accepts(cx, env, td0, [q], inp, f"C06.{name}.rejects-feasible")
    for c in pick(feas, budget // 2):
        q, lo = (list(c), 1) if ends else (P.forms(c)[-1], 0)  # OP / PCTSP: edit the customer list, keep the single final return
        muts = [q[:i] + q[i + 1 :] for i in range(len(q))] + [q[:i] + [q[i + 1], q[i]] + q[i + 2 :] for i in range(len(q) - 1)]
        muts += [q[:i] + [a] + q[i + 1 :] for i in range(len(q)) for a in range(lo, P.na) if a != q[i]]
        muts += [q[:i] + [a] + q[i:] for i in range(len(q) + 1) for a in range(1, P.na)]
        for m in muts:
            m = m + [0] if ends else m
            f = replay(P, m)
            if tuple(m) in seen or not m or (f in ("dup", "cap") and getattr(P, "split", False)) or (isinstance(f, dict) and f["slack"] >= -1e-3):
                continue  # still feasible / within rounding tolerance / SDVRP visit that delivers nothing (wasteful, not infeasible)
            seen.add(tuple(m))
            why = f if isinstance(f, str) else f["why"]
            if why == "missing" and len(set(m)) == len(m) and set(m) | {0} == set(range(max(m) + 1)):
                why = "missing-truncated"  # a shorter sequence that is itself a permutation of 0..k
            cx.rep.case((name, inp["instance"], tuple(m), "corrupt"))
            try:
                env.check_solution_validity(td0, torch.tensor([m]))
                cx.V(f"C06.{name}.accepts-{why}", f"checker accepted a solution violating '{why}'" + ("" if isinstance(f, str) else f" by {-f['slack']:.3g}"), **inp, actions=m)
                continue
            except Exception:
                pass
            # the verdict on a row must not depend on its batch-mates: the same corrupted row next to the feasible original
            # (same length only), as row 1 and as row 0 of a batch of two copies of the instance
            qm = q + [0] if ends else q
            if len(qm) != len(m) or nbatch.get(why, 0) >= 12:   # <= 12 in-batch checks per kind of fault and instance
                continue
            nbatch[why] = nbatch.get(why, 0) + 1
            if td2[0] is None:
                td2[0] = env.reset(torch.cat([raw.clone(), raw.clone()]))
            for tag, rows in (("row1", [qm, m]), ("row0", [m, qm])):
                cx.rep.case((name, inp["instance"], tuple(m), "corrupt-in-batch", tag))
                try:
                    env.check_solution_validity(td2[0], torch.tensor(rows))
                    cx.V(f"C06.{name}.batch-{tag}.accepts-{why}", f"checker rejected this corrupted solution alone but accepted it as {tag} of a batch of two (the other row feasible): '{why}'", **inp, actions=rows)
                except Exception:
                    pass


def joint(cx, name, env, items, tag, checker):
    """Replay one complete sequence per instance in a single batch (finished rows padded with their first offered action)."""
    raws, Ps, seqs, inps = zip(*items)
    keys = set.intersection(*[set(r.keys()) for r in raws])
    inp = dict(env=name, instance=[i["instance"] for i in inps], data=[i["data"] for i in inps], batch=tag, actions=[list(q) for q in seqs])
    td, played = env.reset(torch.cat([r.select(*keys).clone() for r in raws])), [[] for _ in seqs]
    for t in range(max(len(q) for q in seqs)):
        acts = []
        for i, q in enumerate(seqs):
            opts = td["action_mask"][i].nonzero().flatten().tolist()
            if t < len(q) and q[t] not in opts:
                return cx.V(f"C05.{name}.replay-{tag}.action-not-offered", f"row {i} step {t}: action {q[t]} was offered in the enumeration batch but not here", **inp)
            if t >= len(q) and not opts:
                cx.V(f"C02.{name}.replay-{tag}.finished-row-no-action", f"row {i} finished, no action offered", **inp)
            acts.append(q[t] if t < len(q) else (opts or [0])[0])
        td["action"] = torch.tensor(acts)
        try:
            td = env.step(td)["next"]
        except Exception as e:
            return cx.V(f"C02.{name}.replay-{tag}.step-raises", f"env.step raised {type(e).__name__}: {e} at step {t}", **inp)
        for i, (a, d) in enumerate(zip(acts, flat(td["done"]).tolist())):
            played[i].append(a)
            if d != (t + 1 >= len(seqs[i])):
                return cx.V(f"C02.{name}.replay-{tag}.done-mismatch", f"row {i}: done={d} after {t + 1} of {len(seqs[i])} steps", **inp)
    inp["actions"] = played
    try:
        r = env.get_reward(td, torch.tensor(played))
        if list(r.shape) != [len(seqs)]:
            cx.V(f"C03.{name}.replay-{tag}.reward-shape", f"reward shape {list(r.shape)} for batch {len(seqs)}", **inp)
        for i, (P, q) in enumerate(zip(Ps, played)):
            cx.rep.case((name, tag, tuple(inp["instance"]), tuple(map(tuple, played)), i))
            f, ri = replay(P, q), r.reshape(-1)[i].item() if r.numel() == len(seqs) else None
            if isinstance(f, str) or f["slack"] < -TOL:
                cx.V(f"C01.{name}.replay-{tag}.infeasible", f"row {i} infeasible per oracle: {f if isinstance(f, str) else f['why']}", **inp)
            elif ri is not None and not close(ri, P.obj(f)):
                cx.V(f"C03.{name}.replay-{tag}.reward{P.explain(f, ri)}", f"row {i}: get_reward={ri:.6f} oracle={P.obj(f):.6f}", **inp)
    except Exception as e:
        cx.V(f"C03.{name}.replay-{tag}.reward-raises", f"get_reward raised {type(e).__name__}: {e}", **inp)
    if checker:
        try:
            env.check_solution_validity(td, torch.tensor(played))
        except Exception as e:
            cx.V(f"C06.{name}.replay-{tag}.rejects-feasible:{slug(e)}", f"checker raised {type(e).__name__}: {e} on a mask-generated batch", **inp)


# ----------------------------------------------------------------------------------------------------- instances
def F(x): return torch.tensor(x, dtype=torch.float32)[None]
def I(x): return torch.tensor([x])
def L(t): return t[0].double().tolist()  # float64 python values of a batch-1 tensor
def dist(pts): return [[math.hypot(p[0] - q[0], p[1] - q[1]) for q in pts] for p in pts]
def TD(**kw): return TensorDict(kw, batch_size=[1])


GRID = [[0, 0], [3 / 8, 0], [3 / 8, 4 / 8], [0, 4 / 8], [-3 / 8, 0], [-3 / 8, 4 / 8]]  # dyadic 3-4-5 grid: distances exact in float32


def specs(tier, nn):
    """-> {env config: (env, has checker, oracle builder, [(label, raw td, exact overrides)])} for nn customers; generator instances are added by main."""
    S, g, ne = {}, GRID[: nn + 1], nn - nn % 2
    dep, locs, pts = F(g[0]), F(g[1:]), lambda raw: dist([L(raw["depot"])] + L(raw["locs"]))

    def add(name, cls, checker, mk, hand, num_loc=nn, **kw):
        S[name] = (cls(generator_params=dict(num_loc=num_loc, **kw.pop("gen", {})), check_solution=False, **kw), checker, mk, hand)

    add("tsp", R.TSPEnv, True, lambda raw: Perm("tsp", dist(L(raw["locs"]))), [("grid", TD(locs=F(g)), {})], nn + 1)
    am = [[0, 1, 5, 2, 7, 3], [3, 0, 1, 6, 2, 4], [2, 4, 0, 1, 3, 6], [1, 2, 6, 0, 1, 2], [4, 1, 2, 3, 0, 5], [2, 5, 1, 4, 3, 0]]
    add("atsp", R.ATSPEnv, True, lambda raw: Perm("atsp", L(raw["cost_matrix"])), [("intmat", TD(cost_matrix=F([r[: nn + 1] for r in am[: nn + 1]])), {})], nn + 1)
    # CVRP family (documented format: demand normalised by the capacity, vehicle capacity 1.0); generator capacity 12 so that it binds
    idem, sd, s12 = [8, 6, 2, 4, 5][:nn], [12, 14, 6, 9, 7][:nn], {3: [2, 6, 4], 4: [1, 1, 6, 4]}.get(nn, [1, 1, 2, 4, 4])

    def cv(kind, **x):
        return lambda raw, dem=None, cap=1.0: VRP(kind, pts(raw), dem=[0] + (dem or L(raw["demand"])), cap=cap, **x, **(
            dict(tw=L(raw["time_windows"]), svc=L(raw["durations"])) if kind == "cvrptw" else {}))

    half = ("half-half", TD(depot=dep, locs=locs, demand=F([0.5, 0.5, 0.25, 0.25, 0.5][:nn])), {})
    add("cvrp", R.CVRPEnv, True, cv("cvrp"), [("exact-fill-20", TD(depot=dep, locs=locs, demand=F(idem) / 20.0), dict(dem=idem, cap=20)), half], gen=dict(capacity=12.0))
    add("sdvrp", R.SDVRPEnv, True, cv("sdvrp", split=True), [("split-ints", TD(depot=dep, locs=locs, demand=F(sd) / 20.0), dict(dem=sd, cap=20)), half,
                                                             ("thirds-12", TD(depot=dep, locs=locs, demand=F(s12) / 12.0), dict(dem=s12, cap=12))], gen=dict(capacity=12.0))
    # CVRPTW: integer grid (x8) and integer windows: c1 and (via c1) c3 are reached exactly at the window end; fractional: late arrivals below 1 time unit
    twd = dict(demand=F([5] * nn) / 20.0), dict(dem=[5] * nn, cap=20)
    add("cvrptw", R.CVRPTWEnv, True, cv("cvrptw"), [
        ("tw-equality", TD(depot=F(g[0]) * 8, locs=locs * 8, durations=F([0, 1, 0, 2, 1, 0][: nn + 1]), time_windows=I([[0, 40], [0, 3], [2, 7], [6, 9], [1, 30], [5, 30]][: nn + 1]), **twd[0]), twd[1]),
        ("tw-fractional", TD(depot=F([0, 0]), locs=F([[3, 0.5], [0, 4], [3, 4], [-2, 1.5], [1, -2.5]][:nn]), durations=F([0.0] * (nn + 1)),
                             time_windows=I([[0, 40], [0, 9], [0, 7], [4, 9], [1, 30], [2, 6]][: nn + 1]), **twd[0]), twd[1])], gen=dict(capacity=12.0))
    costs = [1, 2, 3]
    add("svrp", R.SVRPEnv, True, lambda raw: VRP("svrp", pts(raw), skill=[0] + [v[0] for v in L(raw["skills"])], tech=[v[0] for v in L(raw["techs"])], cost=costs), [
        ("skip-tech", TD(depot=dep, locs=F([[1.0, 0.0], [1.0, 0.125], [0.0, 0.5], [0.5, 0.5], [0.25, 0]][:nn]), techs=F([[1], [2], [3]]), skills=F([[1], [2], [3], [1], [2]][:nn])), {}),
        ("tech0-all", TD(depot=dep, locs=locs, techs=F([[2], [3], [4]]), skills=F([[1], [2], [1], [2], [1]][:nn])), {})], gen=dict(tech_costs=costs))
    prz = F([0.5, 0.25, 0.75, 1.0, 0.25][:nn])  # OP: max_length == length of the grid tour 0-1-2-3-0 (1.75)
    add("op", R.OPEnv, True, lambda raw: VRP("op", pts(raw), prize=[0] + L(raw["prize"]), maxlen=L(raw["max_length"])),
        [("len-equality", TD(depot=dep, locs=locs, prize=prz, max_length=torch.tensor([1.75])), {}), ("len-slack", TD(depot=dep, locs=locs, prize=prz, max_length=torch.tensor([1.3])), {})])
    pen = F([0.25, 0.5, 0.125, 0.25, 0.5][:nn])  # PCTSP: dyadic prizes reaching exactly 1.0
    pch = [("prize-equality", TD(depot=dep, locs=locs, penalty=pen, deterministic_prize=F([0.5, 0.25, 0.25, 0.5, 0.25][:nn]), stochastic_prize=F([0.25, 0.25, 0.5, 0.75, 0.5][:nn])), {}),
           ("prize-short", TD(depot=dep, locs=locs, penalty=pen, deterministic_prize=F([0.25, 0.125, 0.25, 0.125, 0.125][:nn]), stochastic_prize=F([0.5, 0.125, 0.125, 0.125, 0.0625][:nn])), {})]
    for kind, key, cls in (("pctsp", "deterministic_prize", R.PCTSPEnv), ("spctsp", "stochastic_prize", R.SPCTSPEnv)):
        add(kind, cls, True, lambda raw, kind=kind, key=key: VRP(kind, pts(raw), prize=[0] + L(raw[key]), pen=[0] + L(raw["penalty"]), need=1.0), pch)
    for force in (False, True):
        add("pdp-forced" if force else "pdp", R.PDPEnv, True, lambda raw, force=force: Perm("pdp", pts(raw), force), [("grid", TD(depot=dep, locs=locs[:, :ne]), {})], ne, force_start_at_depot=force)
    for ct in ("minmax", "sum"):
        add(f"mtsp-{ct}", R.MTSPEnv, False, lambda raw, ct=ct: VRP("mtsp", dist(L(raw["locs"])), agents=int(raw["num_agents"][0]), minmax=ct == "minmax"),
            [("grid-2agents", TD(locs=F(g), num_agents=I(2)), {})], nn + 1, gen=dict(min_num_agents=2, max_num_agents=3), cost_type=ct)
    # MDCPDP: documented generator format (capacity [B,1]) and per-depot capacity (what _step indexes by depot)
    for mode in ("minsum", "minmax", "lateness", "lateness_square")[: 4 if tier == "thorough" else 3]:
        for nd in (1, 2):
            def md(raw, mode=mode, nd=nd):
                cap = [int(v) for v in raw["capacity"][0].tolist()]
                return MDCPDP(dist(L(raw["depot"]) + L(raw["locs"])), nd, cap * nd if len(cap) == 1 else cap, mode, float(raw["lateness_weight"][0, 0]))

            base = dict(depot=F([g[0], [1 / 8, 1 / 8]][:nd]), locs=locs[:, :ne], lateness_weight=F([0.5]))
            add(f"mdcpdp-{mode}-{nd}depot", R.MDCPDPEnv, False, md, [("gen-format-cap1", TD(capacity=I([1]), **base), {})] + [("per-depot-cap", TD(capacity=I([1, 2]), **base), {})] * (nd - 1),
                ne, gen=dict(num_depot=nd, min_capacity=1, max_capacity=2, min_lateness_weight=0.25, max_lateness_weight=0.75), reward_mode=mode)
    # MTVRP (documented generator format, depot at index 0): capacity 7 = 4+3, limit 1.75 = grid tour, c2 reached via c1 exactly at its window end
    def mt(raw):
        return VRP("mtvrp", dist(L(raw["locs"])), dem=L(raw["demand_linehaul"]), bh=L(raw["demand_backhaul"]), cap=float(raw["vehicle_capacity"][0, 0]), tw=L(raw["time_windows"]),
                   svc=L(raw["service_time"]), speed=float(raw["speed"][0, 0]), lim=float(raw["distance_limit"][0, 0]), open=bool(raw["open_route"][0, 0]))

    for var in ("cvrp", "ovrp", "vrpb", "vrpl", "vrptw", "ovrpbltw"):
        o, b, l_, t_ = var[0] == "o", "b" in var[3:] or var == "vrpb", "l" in var[3:], "tw" in var
        twm = [[0, 4.0], [0, 0.5], [0.5, 1.0], [0.25, 1.5], [0.125, 0.5], [0.5, 2.0]][: nn + 1] if t_ else [[0, INF]] * (nn + 1)

        def hand(twm=twm, o=o, b=b, l_=l_, t_=t_):
            return TD(locs=F(g), demand_linehaul=F([0, 4, 3, 0 if b else 2, 0 if b else 3, 2][: nn + 1]), demand_backhaul=F([0, 0, 0, 3 if b else 0, 5 if b else 0, 0][: nn + 1]),
                      distance_limit=F([1.75 if l_ else INF]), time_windows=F(twm), service_time=F(([0, 0.125, 0.25, 0.125, 0.125, 0.125] if t_ else [0.0] * 6)[: nn + 1]),
                      vehicle_capacity=F([7.0]), capacity_original=F([7.0]), open_route=torch.tensor([[o]]), speed=F([1.0]))

        add(f"mtvrp-{var}", R.MTVRPEnv, True, mt, [("grid-equalities", hand(), {})] + [("tw-equality-only", hand([twm[0], [0.25, 0.375]] + twm[2:]), {})] * (var == "vrptw"),
            gen=dict(variant_preset=var, capacity=12.0))
    return S


# ----------------------------------------------------------------------------------------------------- main
BIG = ("sdvrp", "mdcpdp")  # not run at n=5 (SDVRP enumeration too large, MDCPDP would repeat n=4)


def main():
    args = _lib.args()
    thorough = args.tier == "thorough"
    torch.set_num_threads(2)
    sizes, ngen, nsolo = ((3, 4, 5), 8, 40) if thorough else ((3, 4), 3, 12)
    bound = (f"envs TSP ATSP CVRP CVRPTW SDVRP SVRP OP PCTSP SPCTSP PDP(free,forced start) mTSP(minmax,sum) MDCPDP({'minsum,minmax,lateness' + ',lateness_square' * thorough} x 1,2 depots) "
             f"MTVRP(cvrp,ovrp,vrpb,vrpl,vrptw,ovrpbltw); customers n in {sizes} (TSP/ATSP/mTSP n+1 nodes; PDP/MDCPDP n rounded down to even; SDVRP and MDCPDP only n<=4); "
             f"per env config and n: 1-3 hand-made exact boundary instances + {ngen} generator instances (VERIF_SEED={args.seed}, CVRP-family/MTVRP generator capacity 12, VRPL limit "
             f"tightened to 2*max depot distance+0.4); per instance: ALL mask-admitted action sequences from reset (batched frontier, finished rows padded), brute-force oracle over ALL "
             f"sequences, <= {nsolo} solo replays, checker on all mask solutions, <= {nsolo} hand-built feasible solutions, all single-edit corruptions of <= {nsolo // 2} of them (each rejected corruption of equal length also as row 0 / row 1 of a batch of two next to the feasible original, <= 12 per kind of fault); per env "
             f"config and n: 4 mixed batches of 2-3 instances")
    rep = _lib.Report(bound=bound, rule="case = (env config, instance, action sequence, phase at-done / after-padding / hand-built / corrupt / replay batch composition)", max_violations=60)
    cx = Ctx(rep, args)
    for n in sizes:
        torch.manual_seed(args.seed * 1000 + n)
        for name, (env, checker, mk, hand) in specs(args.tier, n).items():
            if (args.only and not any(o in (name, name.split("-")[0]) for o in args.only.split(","))) or (n == 5 and name.split("-")[0] in BIG):
                continue

            def run(name=name, env=env, checker=checker, mk=mk, hand=hand):
                gen = env.generator(batch_size=[ngen])
                if "l" in name[9:] and name.startswith("mtvrp"):
                    gen["distance_limit"][:] = 2.0 * (gen["locs"] - gen["locs"][:, :1]).norm(dim=-1).max() + 0.4  # make the limit bind
                insts = [(lab, raw, mk(raw, **ex), True) for lab, raw, ex in hand] + [(f"gen{i}", gen[i : i + 1].clone(), mk(gen[i : i + 1]), False) for i in range(ngen)]
                done = []
                for lab, raw, P, exact in insts:
                    P.exact = exact
                    inp = dict(env=name, instance=f"n{n}-{lab}", exact=exact, data=raw, at=f"@{lab}" if exact else "")
                    sols = explore(cx, name, env, raw, P, inp, checker)
                    feas = compare(cx, name, P, sols, inp, exact)
                    if checker:
                        corrupt(cx, name, env, raw, P, feas, inp, nsolo)
                    qs = sorted(sols.values(), key=len)
                    for q in pick(qs, nsolo):
                        joint(cx, name, env, [(raw, P, q, inp)], "solo", checker)
                    done += [(raw, P, qs, inp)] if qs else []
                for grp in (done[-2:], done[:1] + done[-2:]):  # mixed batches: generator instances only / hand-made next to generator instances
                    if len(grp) > 1:  # shortest sequence next to longest ones (padding), and all-shortest
                        joint(cx, name, env, [(r, P, qs[0] if i == 0 else qs[-1], inp) for i, (r, P, qs, inp) in enumerate(grp)], "mixed", checker)
                        joint(cx, name, env, [(r, P, qs[0], inp) for r, P, qs, inp in grp], "mixed", checker)

            rep.guard(run, f"{name} n={n}")
    return rep.finish()


if __name__ == "__main__":
    sys.exit(main())
