#!/usr/bin/env python
"""Bounded stand-in: brute-force check of the rl4co routing environments against independent problem-definition oracles.

Envs (rl4co/envs/routing/*/env.py): TSP, ATSP, CVRP, CVRPTW, SDVRP, SVRP, OP, PCTSP, SPCTSP, PDP (free / forced depot start),
mTSP (minmax, sum), MDCPDP (minsum, minmax, lateness, lateness_square; generator format and per-depot capacity format),
MTVRP variants CVRP, OVRP, VRPB, VRPL, VRPTW, OVRPBLTW.

Method. For every instance ALL action sequences admitted by `action_mask` are enumerated from `reset` (level-by-level DFS
frontier: every row of the stepped batch is the same instance in a different state; finished rows stay in the batch and get
padding steps with the first offered action until the last row finishes). Sampled complete sequences are replayed at batch
size 1 and in mixed batches of 2-3 different instances (padding after finishing). Oracles (classes VRP / Perm / MDCPDP below)
are written from the problem definitions in float64 on the original instance data and never call the library.

Clauses (name = "<prop>.<env>.<class>"):
 C01 infeasible-<why>     every completed mask-confined sequence is feasible per oracle (each customer once / demand fully
                          served, load<=capacity, service start in window with waiting and depot reset, pickup before delivery,
                          skill<=technician, OP length<=max_length, route limit, linehaul before backhaul, open routes, PCTSP
                          prize>=1 or all visited, mTSP <= num_agents subtours, MDCPDP same vehicle / carry<=capacity).
 C02 dead-end, finished-row-no-action, finished-became-unfinished, step-bound, step-raises
                          every reachable unfinished state offers an action; finished rows keep one and stay finished; episode
                          length <= documented bound (n | 2n+1 | 2(n+loads)+1 | n+2 | n+agents-1 | n+techs | n+2*depots).
 C03 reward-at-done, reward-after-padding, reward-shape, reward-raises, replay-<solo|mixed>.reward
                          env.get_reward(td, actions) == oracle objective (1e-4 relative), shape [batch].
 C05 exact-<fill|tw|len|prize>-hidden, feasible-hidden[-<class>], optimum-unreachable
                          canonical set of mask-reachable solutions == brute-force set of all feasible solutions (oracle DFS over
                          all sequences) modulo the documented pruning of consecutive depot visits; best mask reward == optimum.
 C06 rejects-mask-solution, rejects-feasible, accepts-<fault>, replay-*.rejects-feasible
                          check_solution_validity accepts every mask-generated and every brute-force feasible solution (with and
                          without final depot return) and raises for every single-edit corruption (delete / adjacent swap /
                          substitute / insert) that the oracle classifies infeasible beyond 1e-3 (fault = dup, missing, cap, tw,
                          prec, len, prize, skill, order).
Tolerances: generator (float) instances: solutions whose tightest constraint slack is within 1e-5 are ambiguous and ignored by
C05; hand-made instances use dyadic coordinates / integer data so equality is exact and a solution with slack 0 must be offered.
Bound: see BOUND (built in main). KNOWN lists confirmed defects of the unchanged library (reported via rep.known).
"""
import math
import os
import sys

sys.path.insert(0, os.path.dirname(os.path.abspath(__file__)))
import _lib  # noqa: E402

_lib.setup_path()
import logging  # noqa: E402

import torch  # noqa: E402
from tensordict import TensorDict  # noqa: E402

logging.disable(logging.WARNING)
from rl4co.envs import routing as R  # noqa: E402

INF, TOL = float("inf"), 1e-5
KNOWN = {}  # clause name -> confirmed defect of the unchanged library (failing input / config)


def known(desc, *names):
    KNOWN.update({n: desc for n in names})


_MD = [f"mdcpdp-{m}-{d}depot" for m in ("minsum", "minmax", "lateness", "lateness_square") for d in (1, 2)]
_MT = [f"mtvrp-{v}" for v in ("cvrp", "ovrp", "vrpb", "vrpl", "vrptw", "ovrpbltw")]
_RW = ("reward-at-done", "replay-solo.reward", "replay-mixed.reward")
known("checker sizes the tour from len(actions): a shorter permutation of 0..k-1 is accepted, e.g. actions [0,1,2] on 4 nodes (PDP: [1] on 1 pair)",
      *[f"C06.{e}.accepts-missing-truncated" for e in ("tsp", "atsp", "pdp", "pdp-forced")])
known("SDVRP checker needs a depot visit: mask-generated single route [1,2,3] (total demand <= capacity) raises 'All demand must be satisfied'",
      *[f"C06.sdvrp.{c}:all-demand-must-be-satisfied" for c in ("rejects-mask-solution", "rejects-feasible", "replay-solo.rejects-feasible", "replay-mixed.rejects-feasible")])
known("CVRPTW checker truncates arrival with .int(): depot(0,0) c1(3,.5) c2(0,4) window end 7, [1,2,0,3,0] arrives at c2 at 7.65, accepted", "C06.cvrptw.accepts-tw")
known("CVRPTW checker reads the depot deadline of batch row 0 for all rows: batch [max_time 40, max_time 480] rejects valid rows",
      "C06.cvrptw.replay-mixed.rejects-feasible:vehicle-cannot-perform-service-and")
known("CVRP mask float32: demands 8,6,2,4 / capacity 20, after [1,2,3] customer 4 (exact fill) is masked (0.8000001+0.2 > 1)", "C05.cvrp.exact-fill-hidden")
known("SVRP mask forbids leaving the depot idle: a technician that can serve someone cannot be skipped, cheaper solutions such as [0,1,2,0,3] are unreachable",
      "C05.svrp.feasible-hidden-skip-technician", "C05.svrp.optimum-unreachable", "C05.svrp.optimum-unreachable@skip-tech", "C05.svrp.optimum-unreachable@tech0-all")
known("SVRP checker never checks the segment after the last depot visit: techs [1,2,3], skills [1,2,3], actions [1,2,3] accepted", "C06.svrp.accepts-skill")
known("OP reset subtracts 1e-6 from max_length: a tour of length exactly max_length (grid tour 1.75) is masked", "C05.op.exact-len-hidden", "C05.op.optimum-unreachable@len-equality")
known("mTSP minmax: a padding depot step after done re-adds the return leg; reward has shape () at batch size 1",
      "C03.mtsp-minmax.reward-after-padding", "C03.mtsp-minmax.replay-mixed.reward", "C03.mtsp-minmax.replay-solo.reward-shape")
known("mTSP cost_type='sum': get_reward raises unless len(actions)==num_loc and otherwise returns the closed loop over the action list, not the sum of subtours",
      *[f"C03.mtsp-sum.{c}" for c in _RW + ("reward-raises", "replay-solo.reward-raises", "replay-mixed.reward-raises")])
known("MDCPDP: final return leg missing at done; batched step lengths of all rows taken from row 0 ([B,1] vs [B] broadcast); current_depot never advances to a newly "
      "started depot (lengths / capacity of the previous depot used)", *[f"C03.{e}.{c}{x}" for e in _MD for c in _RW for x in ("", "-last-return-leg-missing")])
known("MDCPDP reward_mode='lateness_square' (documented) raises NotImplementedError", *[f"C03.{e}.{c}" for e in _MD if "square" in e for c in ("reward-raises", "replay-solo.reward-raises", "replay-mixed.reward-raises")])
known("MDCPDP infers num_depot from capacity.shape[-1] but the generator emits capacity [B,1]: with num_depot=2 the second depot is treated as a pickup "
      "(mask-confined [0,1,2,3] switches depot with an open route); with per-depot capacity the new depot's capacity is never used",
      *[f"{c}.{e}.{x}" for e in _MD if "2depot" in e for c, x in (("C01", "infeasible-depot"), ("C05", "exact-fill-hidden"), ("C05", "feasible-hidden"), ("C05", "optimum-unreachable"),
                                                                    ("C05", "optimum-unreachable@gen-format-cap1"), ("C05", "optimum-unreachable@per-depot-cap"))])
known("MTVRP mask uses strict '<' on window ends (checker '<='): arrival exactly at the window end is masked; if that is the only way to serve a customer the episode never ends",
      "C05.mtvrp-vrptw.exact-tw-hidden", "C05.mtvrp-vrptw.exact-fill+tw-hidden", "C05.mtvrp-ovrpbltw.exact-fill+tw-hidden", "C05.mtvrp-ovrpbltw.exact-tw-hidden",
      "C02.mtvrp-vrptw.step-bound@tw-equality-only", "C05.mtvrp-vrptw.optimum-unreachable@tw-equality-only")
known("MTVRP checker does not check linehaul-before-backhaul: [.., backhaul, linehaul, ..] in one route accepted", "C06.mtvrp-vrpb.accepts-order", "C06.mtvrp-ovrpbltw.accepts-order")
known("MTVRP checker compares used_cap [B] with vehicle_capacity [B,1] (broadcast [B,B]): a batch with capacities [7,1] rejects valid rows",
      *[f"C06.{e}.replay-mixed.rejects-feasible:used-more-than-capacity-for" for e in _MT])


# ----------------------------------------------------------------------------------------------------- oracles
class VRP:
    """Depot routing: node 0 = depot, a route = maximal run of customers between depot visits (final return implicit)."""

    def __init__(s, kind, D, **f):
        s.kind, s.D, s.n, s.na, g = kind, D, len(D) - 1, len(D), f.get
        s.dem, s.cap, s.bh, s.split = g("dem"), g("cap", INF), g("bh"), g("split", False)
        s.tw, s.svc, s.speed, s.lim, s.open = g("tw"), g("svc"), g("speed", 1.0), g("lim", INF), g("open", False)
        s.skill, s.tech, s.cost = g("skill"), g("tech"), g("cost")
        s.prize, s.pen, s.maxlen, s.need = g("prize"), g("pen"), g("maxlen", INF), g("need", 0)
        s.agents, s.minmax, s.ends = g("agents"), g("minmax", False), kind in ("op", "pctsp", "spctsp")
        loads = math.ceil(sum(s.dem) / s.cap - 1e-9) if s.split else 0
        s.bound = (s.n + 2 if s.ends else s.n + len(s.tech) if s.tech else s.n + s.agents - 1 if s.agents
                   else 2 * (s.n + loads) + 1 if s.split else 2 * s.n + 1)

    def init(s):
        return dict(pos=0, vis=frozenset(), rem=tuple(s.dem) if s.split else (), load=0.0, loadb=0.0, t=0.0, rlen=0.0, k=0,
                    bhs=False, total=0.0, worst=0.0, prize=0.0, closed=False, slack=INF, why="")

    @staticmethod
    def _c(st, slack, why):  # record the tightest numeric constraint(s)
        if slack < st["slack"] - 1e-9:
            st["slack"], st["why"] = slack, why
        elif slack <= st["slack"] + 1e-9 and why not in st["why"].split("+"):
            st["why"] = "+".join(sorted(set(st["why"].split("+") + [why]) - {""}))

    def served(s, st):
        return all(r <= 1e-9 for r in st["rem"][1:]) if s.split else len(st["vis"]) == s.n

    def complete(s, st):
        return st["closed"] if s.ends else s.served(st)

    def step(s, st, a):
        st = dict(st)
        if st["closed"] or (a == 0 and st["pos"] == 0 and not s.ends and (s.served(st) or not s.tech)):
            return st if a == 0 else "move-after-end"  # padding / pointless stay at the depot
        d = s.D[st["pos"]][a]
        c = s.cost[min(st["k"], len(s.cost) - 1)] if s.cost else 1.0
        if a == 0:  # end of a route (SVRP: also hands over to the next technician)
            if s.tech and st["k"] >= len(s.tech):
                return "skill"  # no technician left
            if not s.open:
                st["total"] += d * c
                st["rlen"] += d
                st["t"] += d / s.speed
                s._c(st, s.lim - st["rlen"], "len")
                if s.tw:
                    s._c(st, s.tw[0][1] - st["t"], "tw")
            st["worst"] = max(st["worst"], st["rlen"])
            if s.ends:
                st["closed"] = True
                s._c(st, s.maxlen - st["total"], "len")
                if s.need and len(st["vis"]) < s.n:
                    s._c(st, st["prize"] - s.need, "prize")
            st.update(pos=0, k=st["k"] + 1, load=0.0, loadb=0.0, t=0.0, rlen=0.0, bhs=False)
            return st
        if s.split:
            rem, free = list(st["rem"]), s.cap - st["load"]
            if rem[a] <= 1e-9:
                return "dup"  # nothing left to deliver there
            if free <= 1e-9:
                return "cap"  # full vehicle
            q = min(rem[a], free)
            rem[a] -= q
            st["rem"], st["load"] = tuple(rem), st["load"] + q
        else:
            if a in st["vis"]:
                return "dup"
            st["vis"] = st["vis"] | {a}
            if s.dem and s.dem[a] > 0:
                if st["bhs"]:
                    return "order"  # linehaul after a backhaul in the same route
                st["load"] += s.dem[a]
                s._c(st, s.cap - st["load"], "cap")
            if s.bh and s.bh[a] > 0:
                st["bhs"], st["loadb"] = True, st["loadb"] + s.bh[a]
                s._c(st, s.cap - st["loadb"], "cap")
        if s.tw:
            st["t"] += d / s.speed
            s._c(st, s.tw[a][1] - st["t"], "tw")
            st["t"] = max(st["t"], s.tw[a][0]) + s.svc[a]
        st["rlen"] += d
        st["total"] += d * c
        if s.lim < INF:
            s._c(st, s.lim - st["rlen"] - (0 if s.open else s.D[a][0]), "len")
        if s.tech:
            if st["k"] >= len(s.tech):
                return "skill"
            s._c(st, s.tech[st["k"]] - s.skill[a], "skill")
        if s.agents:
            s._c(st, s.agents - st["k"] - 1, "agents")
        if s.prize:
            st["prize"] += s.prize[a]
        st["pos"] = a
        return st

    def finalize(s, st):
        if not s.complete(st):
            return "missing"
        return s.step(st, 0) if (not s.ends and st["pos"] != 0) else st

    def obj(s, st):
        if s.kind == "op":
            return st["prize"]
        if s.ends:
            return -(st["total"] + sum(s.pen[i] for i in range(1, s.n + 1) if i not in st["vis"]))
        return -st["worst"] if s.minmax else -st["total"]

    def explain(s, st, r):  # failure class of a reward mismatch (for clause names)
        return ""

    def prune(s, st, a):  # documented pruning of the brute force: no pointless stay at the depot
        return a == 0 and st["pos"] == 0 and not s.ends and not s.tech

    def canon(s, seq):
        if s.ends:
            return tuple(a for a in seq if a)
        q = list(seq)
        while q and q[-1] == 0:
            q.pop()
        return tuple(q) if s.tech else tuple(a for i, a in enumerate(q) if a or (i and q[i - 1]))

    def forms(s, c):  # action sequences encoding canonical solution c for the checker
        return [list(c) + [0]] if s.ends else [list(c), list(c) + [0]]

    def hidden_class(s, c):
        if s.tech:  # a technician that could serve an open customer is skipped
            segs, cur = [], []
            for a in list(c) + [0]:
                if a:
                    cur.append(a)
                else:
                    segs.append(cur)
                    cur = []
            open_ = set(range(1, s.n + 1))
            for k, seg in enumerate(segs):
                if not seg and any(s.skill[j] <= s.tech[k] for j in open_):
                    return "-skip-technician"
                open_ -= set(seg)
        return ""


class Perm:
    """TSP / ATSP (closed tour over all nodes) and PDP (depot 0, pickups 1..h, deliveries h+1..2h)."""

    def __init__(s, kind, D, force=False):
        s.kind, s.D, s.n, s.na, s.force, s.h = kind, D, len(D), len(D), force, (len(D) - 1) // 2
        s.bound = s.n if (kind != "pdp" or force) else s.n - 1

    def init(s):
        return dict(seq=(), slack=INF, why="")

    def step(s, st, a):
        q = st["seq"]
        if a in q:
            return "dup"
        if s.kind == "pdp":
            if (a == 0) != (s.force and not q):
                return "depot"
            if a > s.h and a - s.h not in q:
                return "prec"
        return dict(st, seq=q + (a,))

    def complete(s, st):
        return len(st["seq"]) == s.bound

    def finalize(s, st):
        return st if s.complete(st) else "missing"

    def obj(s, st):
        q = st["seq"] if (s.kind != "pdp" or s.force) else (0,) + st["seq"]
        return -sum(s.D[q[i]][q[(i + 1) % len(q)]] for i in range(len(q)))

    def prune(s, st, a):
        return False

    def canon(s, seq):
        return tuple(seq[: s.bound])

    def forms(s, c):
        return [list(c)]

    def hidden_class(s, c):
        return ""

    explain = VRP.explain


class MDCPDP:
    """Depots 0..nd-1 (one vehicle each), pickups nd..nd+h-1, deliveries nd+h..; a depot action starts that vehicle (first
    visit) or returns it (second visit, implicit for the last route); orders are delivered by the vehicle that picked them up."""

    def __init__(s, D, nd, cap, mode="minsum", w=1.0, open_=False):
        s.kind, s.D, s.nd, s.na, s.h, s.cap, s.mode, s.w, s.open = "mdcpdp", D, nd, len(D), (len(D) - nd) // 2, cap, mode, w, open_
        s.n, s.bound = len(D) - nd, len(D) + nd

    def init(s):
        return dict(cur=None, started=frozenset(), vis=frozenset(), carry=frozenset(), pos=None, rlen=0.0, lens=(), late=0.0,
                    routes=(), slack=INF, why="")

    def complete(s, st):
        return len(st["vis"]) == s.n and len(st["started"]) == s.nd

    def step(s, st, a):
        st = dict(st)
        if a < s.nd:
            if st["cur"] is None:
                if a in st["started"]:
                    return st if s.complete(st) else "dup"  # padding after the end
                return dict(st, cur=a, pos=a, rlen=0.0, started=st["started"] | {a}, routes=st["routes"] + ((a,),))
            if a != st["cur"]:
                return "depot"  # switching depot with an open route
            if st["carry"]:
                return "prec"  # back at the depot with undelivered orders
            ln = st["rlen"] + (0 if s.open else s.D[st["pos"]][a])
            return dict(st, cur=None, pos=a, lens=st["lens"] + (ln,))
        if st["cur"] is None:
            return "depot"  # customer without vehicle
        if a in st["vis"]:
            return "dup"
        if a < s.nd + s.h:
            st["carry"] = st["carry"] | {a}
            VRP._c(st, s.cap[st["cur"]] - len(st["carry"]), "cap")
        elif a - s.h not in st["carry"]:
            return "prec"
        else:
            st["carry"] = st["carry"] - {a - s.h}
        st["rlen"] += s.D[st["pos"]][a]
        if a >= s.nd + s.h:
            st["late"] += st["rlen"]
        st["routes"] = st["routes"][:-1] + (st["routes"][-1] + (a,),)
        return dict(st, pos=a, vis=st["vis"] | {a})

    def finalize(s, st):
        if not s.complete(st):
            return "missing"
        return s.step(st, st["cur"]) if st["cur"] is not None else st

    def obj(s, st):
        tot = sum(st["lens"])
        return -(max(st["lens"]) if s.mode == "minmax" else tot if s.mode == "minsum" else (1 - s.w) * tot + s.w * st["late"])

    def prune(s, st, a):
        return False

    def canon(s, seq):
        st = s.init()
        for a in seq:
            st = s.step(st, a)
            if isinstance(st, str):
                return ("invalid",) + tuple(seq)
        return frozenset(r for r in st["routes"] if len(r) > 1)

    def forms(s, c):
        return []

    def explain(s, st, r):
        last = 0 if s.open else s.D[st["routes"][-1][-1]][st["routes"][-1][0]]
        alt = dict(st, lens=st["lens"][:-1] + (st["lens"][-1] - last,))
        return "-last-return-leg-missing" if last > 1e-6 and close(r, s.obj(alt)) else ""

    def hidden_class(s, c):
        return ""


def replay(P, seq):
    st = P.init()
    for a in seq:
        st = P.step(st, a)
        if isinstance(st, str):
            return st
    return P.finalize(st)


def brute(P, tol):
    """All feasible complete solutions by DFS over ALL action sequences (oracle state machine only)."""
    out = {}

    def rec(st, seq):
        if P.complete(st):
            f = P.finalize(st)
            if not isinstance(f, str) and f["slack"] >= -tol:
                out.setdefault(P.canon(seq), (P.obj(f), f["slack"], f["why"], seq))
            return
        if len(seq) > P.bound + 2:
            return
        for a in range(P.na):
            if not P.prune(st, a):
                t = P.step(st, a)
                if not isinstance(t, str) and t["slack"] >= -tol:
                    rec(t, seq + [a])

    rec(P.init(), [])
    return out


# ----------------------------------------------------------------------------------------------------- engine
class Ctx:
    def __init__(s, rep, args):
        s.rep, s.prop, s.count = rep, args.prop, {}

    def V(s, name, what, **inp):
        s.count[name] = s.count.get(name, 0) + 1
        if (s.prop and not name.startswith(s.prop)) or s.count[name] > 2:  # at most 2 witnesses per clause
            return
        (s.rep.known if name in KNOWN else s.rep.violation)(name, what, inp)


def slug(e):
    return "-".join("".join(ch if ch.isalpha() else " " for ch in str(e).lower()).split()[:5]) or type(e).__name__


def flat(x):
    return x.reshape(x.shape[0], -1)[:, 0]


def reward_of(env, td, acts):
    r = env.get_reward(td, acts)
    return r, (list(r.shape) == [acts.shape[0]])


def close(r, o):
    return abs(r - o) <= 1e-4 * max(1.0, abs(o))


def explore(cx, name, env, raw, P, inp, checker):
    """Enumerate all mask-admitted sequences; returns {canon: (seq, reward_at_done)}."""
    td = env.reset(raw.clone())
    seqs, fin, sols, level = [[]], [None], {}, 0
    while any(f is None for f in fin):
        if level > P.bound:
            cx.V(f"C02.{name}.step-bound{inp['at']}", f"unfinished after {level} steps (bound {P.bound})", **inp, actions=seqs[fin.index(None)])
            break
        idx, acts = [], []
        for i, m in enumerate(td["action_mask"]):
            opts = m.nonzero().flatten().tolist()
            if fin[i] is not None:
                if not opts:
                    cx.V(f"C02.{name}.finished-row-no-action", "finished row offered no action while others run", **inp, actions=seqs[i])
                opts = opts[:1] or [0]
            elif not opts:
                cx.V(f"C02.{name}.dead-end{inp['at']}", "unfinished state with all actions masked", **inp, actions=seqs[i])
            idx += [i] * len(opts)
            acts += opts
        if not idx:
            break
        pad = [fin[i] is not None for i in idx]
        try:
            nxt = td[torch.tensor(idx)]
            nxt["action"] = torch.tensor(acts)
            nxt = env.step(nxt)["next"]
        except Exception as e:  # retry without the finished (padding) rows
            if not any(pad):
                cx.V(f"C02.{name}.step-raises", f"env.step raised {type(e).__name__}: {e}", **inp, actions=[seqs[i] + [a] for i, a in zip(idx, acts)][:3])
                break
            j = pad.index(True)
            cx.V(f"C02.{name}.step-raises-on-padding", f"env.step raised {type(e).__name__}: {e} when a finished row is stepped with its "
                 f"offered action {acts[j]}", **inp, actions=seqs[idx[j]] + [acts[j]])
            keep = [k for k, p in enumerate(pad) if not p]
            idx, acts = [idx[k] for k in keep], [acts[k] for k in keep]
            nxt = td[torch.tensor(idx)]
            nxt["action"] = torch.tensor(acts)
            nxt = env.step(nxt)["next"]
        td, level = nxt, level + 1
        seqs, pfin = [seqs[i] + [a] for i, a in zip(idx, acts)], [fin[i] for i in idx]
        done = flat(td["done"]).tolist()
        fin = [pf if pf is not None else (level if d else None) for pf, d in zip(pfin, done)]
        for k, (pf, d) in enumerate(zip(pfin, done)):
            if pf is not None and not d:
                cx.V(f"C02.{name}.finished-became-unfinished", "done flag reset by a padding step", **inp, actions=seqs[k])
        new = [k for k, (pf, d) in enumerate(zip(pfin, done)) if pf is None and d]
        if new:
            judge(cx, name, env, td[torch.tensor(new)], [seqs[k] for k in new], P, inp, "at-done", checker, sols)
    padded = [k for k, f in enumerate(fin) if f is not None and f < level]
    if padded:
        judge(cx, name, env, td[torch.tensor(padded)], [seqs[k] for k in padded], P, inp, "after-padding", False, None)
    return sols


def judge(cx, name, env, td, seqs, P, inp, when, checker, sols):
    """C01 / C03 / C06 for a batch of completed sequences of equal length (td = their final states)."""
    acts = torch.tensor(seqs)
    try:
        r, shape_ok = reward_of(env, td, acts)
        if not shape_ok:
            cx.V(f"C03.{name}.reward-shape", f"reward shape {list(r.shape)} for batch {acts.shape[0]}", **inp, actions=seqs[0])
        r = r.reshape(-1).tolist() if r.numel() == len(seqs) else [float("nan")] * len(seqs)
    except Exception as e:
        cx.V(f"C03.{name}.reward-raises", f"get_reward raised {type(e).__name__}: {e} ({when})", **inp, actions=seqs[0])
        r = [None] * len(seqs)
    ok = []
    for k, (q, rq) in enumerate(zip(seqs, r)):
        cx.rep.case((name, inp["instance"], tuple(q), when))
        f = replay(P, q)
        if isinstance(f, str) or f["slack"] < -TOL:
            why = f if isinstance(f, str) else f["why"]
            cx.V(f"C01.{name}.infeasible-{why}", f"mask-confined episode violates '{why}'" + ("" if isinstance(f, str) else f" by {-f['slack']:.3g}"), **inp, actions=q)
            continue
        if rq is not None and not close(rq, P.obj(f)):
            cx.V(f"C03.{name}.reward-{when}{P.explain(f, rq)}", f"get_reward={rq:.6f} oracle={P.obj(f):.6f}", **inp, actions=q)
        ok.append(k)
        if sols is not None:
            sols.setdefault(P.canon(q), (q, rq))
    if checker and ok:
        check_accepts(cx, name, env, td[torch.tensor(ok)], [seqs[k] for k in ok], inp, f"C06.{name}.rejects-mask-solution")


def check_accepts(cx, name, env, td, seqs, inp, clause):
    try:
        env.check_solution_validity(td, torch.tensor(seqs))
    except Exception:
        for k, q in enumerate(seqs):
            try:
                env.check_solution_validity(td[k : k + 1], torch.tensor([q]))
            except Exception as e:
                cx.V(f"{clause}:{slug(e)}", f"checker raised {type(e).__name__}: {e} on a feasible solution", **inp, actions=q)
                break


def compare(cx, name, P, sols, inp, exact):
    """C05: mask-reachable canonical set vs brute-force set."""
    bf = brute(P, 0.0 if exact else TOL)
    for c, (o, slack, why, q) in bf.items():
        tight = abs(slack) <= (1e-9 if exact else TOL)
        if c in sols or (tight and not exact) or slack < -1e-9:
            continue
        hc = P.hidden_class(c)
        cls = "feasible-hidden" + hc if hc or not tight else f"exact-{why.replace('cap', 'fill')}-hidden"
        cx.V(f"C05.{name}.{cls}", f"feasible solution (slack {slack:.3g} on '{why}', objective {o:.5f}) not reachable through the mask", **inp, actions=q)
    sure = [o for o, slack, _, _ in bf.values() if slack >= (-1e-9 if exact else TOL)]
    got = [P.obj(replay(P, q)) for q, _ in sols.values()]
    if sure and (not got or max(got) < max(sure) - 1e-7):
        best = max(bf.values(), key=lambda v: v[0] if v[1] >= (-1e-9 if exact else TOL) else -INF)
        cx.V(f"C05.{name}.optimum-unreachable{inp['at']}", f"best mask-reachable objective {max(got) if got else None} < optimum {max(sure):.6f}", **inp, actions=best[3])
    return bf


def corrupt(cx, name, env, raw, P, bf, inp, budget):
    """C06: hand-built feasible solutions accepted, single-edit corruptions classified infeasible by the oracle rejected."""
    td0 = env.reset(raw.clone())
    feas = [c for c, v in bf.items() if v[1] > 1e-3 or (inp["exact"] and v[1] >= -1e-9)]
    for c in feas[:: max(1, len(feas) // budget)]:
        for q in P.forms(c):
            cx.rep.case((name, inp["instance"], tuple(q), "hand-built"))
            check_accepts(cx, name, env, td0, [q], inp, f"C06.{name}.rejects-feasible")
    seen = set()
    for c in feas[:: max(1, len(feas) // max(1, budget // 4))]:
        ends = getattr(P, "ends", False)  # OP / PCTSP: edit the customer list, keep the single final return
        q, lo = (list(c), 1) if ends else (P.forms(c)[-1], 0)
        muts = [q[:i] + q[i + 1 :] for i in range(len(q))] + [q[:i] + [q[i + 1], q[i]] + q[i + 2 :] for i in range(len(q) - 1)]
        muts += [q[:i] + [a] + q[i + 1 :] for i in range(len(q)) for a in range(lo, P.na) if a != q[i]]
        muts += [q[:i] + [a] + q[i:] for i in range(len(q) + 1) for a in range(1, P.na)]
        for m in muts:
            m = m + [0] if ends else m
            if tuple(m) in seen or not m:
                continue
            seen.add(tuple(m))
            f = replay(P, m)
            if (f in ("dup", "cap") and getattr(P, "split", False)) or (not isinstance(f, str) and f["slack"] >= -1e-3):
                continue  # still feasible / within rounding tolerance / SDVRP visit that delivers nothing (wasteful, not infeasible)
            why = f if isinstance(f, str) else f["why"]
            if why == "missing" and len(set(m)) == len(m) and set(m) | {0} == set(range(max(m) + 1)):
                why = "missing-truncated"  # a shorter sequence that is itself a permutation of 0..len-1
            cx.rep.case((name, inp["instance"], tuple(m), "corrupt"))
            try:
                env.check_solution_validity(td0, torch.tensor([m]))
                cx.V(f"C06.{name}.accepts-{why}", f"checker accepted a solution violating '{why}'" + ("" if isinstance(f, str) else f" by {-f['slack']:.3g}"), **inp, actions=m)
            except Exception:
                pass


def joint(cx, name, env, items, tag, checker):
    """Replay one complete sequence per instance in a single batch (finished rows padded with their first offered action)."""
    raws, Ps, seqs, inps = zip(*items)
    inp = dict(env=name, instance=[i["instance"] for i in inps], data=[i["data"] for i in inps], batch=tag)
    keys = set.intersection(*[set(r.keys()) for r in raws])
    td = env.reset(torch.cat([r.select(*keys).clone() for r in raws]))
    played, fin = [[] for _ in seqs], [None] * len(seqs)
    for t in range(max(len(q) for q in seqs)):
        acts = []
        for i, q in enumerate(seqs):
            m = td["action_mask"][i]
            if t < len(q):
                if not m[q[t]]:
                    return cx.V(f"C05.{name}.replay-{tag}.action-not-offered", f"row {i}: action {q[t]} offered in the enumeration batch but not here", **inp, actions=[list(x) for x in seqs])
                acts.append(q[t])
            else:
                opts = m.nonzero().flatten().tolist()
                if not opts:
                    cx.V(f"C02.{name}.replay-{tag}.finished-row-no-action", f"row {i} finished, no action offered", **inp, actions=[list(x) for x in seqs])
                acts.append((opts or [0])[0])
        td["action"] = torch.tensor(acts)
        try:
            td = env.step(td)["next"]
        except Exception as e:
            return cx.V(f"C02.{name}.replay-{tag}.step-raises", f"env.step raised {type(e).__name__}: {e} at step {t}", **inp, actions=[list(x) for x in seqs])
        for i, a in enumerate(acts):
            played[i].append(a)
        for i, d in enumerate(flat(td["done"]).tolist()):
            if d != (t + 1 >= len(seqs[i])):
                return cx.V(f"C02.{name}.replay-{tag}.done-mismatch", f"row {i}: done={d} after {t + 1} of {len(seqs[i])} steps", **inp, actions=[list(x) for x in seqs])
    acts = torch.tensor(played)
    try:
        r, shape_ok = reward_of(env, td, acts)
        if not shape_ok:
            cx.V(f"C03.{name}.replay-{tag}.reward-shape", f"reward shape {list(r.shape)} for batch {len(seqs)}", **inp, actions=played)
        for i, (P, q) in enumerate(zip(Ps, played)):
            cx.rep.case((name, tag, tuple(inp["instance"]), tuple(map(tuple, played)), i))
            f = replay(P, q)
            if isinstance(f, str) or f["slack"] < -TOL:
                cx.V(f"C01.{name}.replay-{tag}.infeasible", f"row {i} infeasible per oracle: {f if isinstance(f, str) else f['why']}", **inp, actions=played)
            elif r.numel() == len(seqs) and not close(r.reshape(-1)[i].item(), P.obj(f)):
                cx.V(f"C03.{name}.replay-{tag}.reward{P.explain(f, r.reshape(-1)[i].item())}", f"row {i}: get_reward={r.reshape(-1)[i].item():.6f} oracle={P.obj(f):.6f}", **inp, actions=played)
    except Exception as e:
        cx.V(f"C03.{name}.replay-{tag}.reward-raises", f"get_reward raised {type(e).__name__}: {e}", **inp, actions=played)
    if checker:
        try:
            env.check_solution_validity(td, acts)
        except Exception as e:
            cx.V(f"C06.{name}.replay-{tag}.rejects-feasible:{slug(e)}", f"checker raised {type(e).__name__}: {e} on mask-generated batch", **inp, actions=played)


# ----------------------------------------------------------------------------------------------------- instances
def F(x):
    return torch.tensor(x, dtype=torch.float32)[None]


def dist(pts):
    pts = [[float(v) for v in p] for p in pts]
    return [[math.hypot(p[0] - q[0], p[1] - q[1]) for q in pts] for p in pts]


def L(t):  # float64 python values of a batch-1 tensor
    return t[0].double().tolist()


GRID = [[0, 0], [3 / 8, 0], [3 / 8, 4 / 8], [0, 4 / 8], [-3 / 8, 0]]  # dyadic 3-4-5 grid: all used distances exact in float32


def TD(**kw):
    return TensorDict(kw, batch_size=[1])


def specs(tier, n):
    """-> {env name: (env, checker?, [(label, raw td, oracle, exact)])}; generator instances are appended by main."""
    S, g = {}, GRID[: n + 1]
    dep, locs = F(g[0]), F(g[1:])
    nn = len(g) - 1

    def add(name, env, checker, mk, hand):
        S[name] = (env, checker, mk, hand)

    # TSP / ATSP
    add("tsp", R.TSPEnv(generator_params=dict(num_loc=nn + 1), check_solution=False), True,
        lambda raw: Perm("tsp", dist(L(raw["locs"]))), [("grid", TD(locs=F(g)), {})])
    am = [[0, 1, 5, 2, 7], [3, 0, 1, 6, 2], [2, 4, 0, 1, 3], [1, 2, 6, 0, 1], [4, 1, 2, 3, 0]]
    add("atsp", R.ATSPEnv(generator_params=dict(num_loc=nn + 1), check_solution=False), True,
        lambda raw: Perm("atsp", L(raw["cost_matrix"])), [("intmat", TD(cost_matrix=F([r[: nn + 1] for r in am[: nn + 1]])), {})])
    # CVRP family (documented format: demand normalised by capacity, vehicle capacity 1.0)
    idem = [8, 6, 2, 4][:nn]

    def cv(kind, **x):
        return lambda raw, dem=None, cap=1.0: VRP(kind, dist([L(raw["depot"])] + L(raw["locs"])), dem=[0] + (dem or L(raw["demand"])), cap=cap, **x)

    cvh = [("exact-fill-20", TD(depot=dep, locs=locs, demand=F(idem) / 20.0), dict(dem=idem, cap=sum(idem))),
           ("half-half", TD(depot=dep, locs=locs, demand=F([0.5, 0.5, 0.25, 0.25][:nn])), {})]
    add("cvrp", R.CVRPEnv(generator_params=dict(num_loc=nn), check_solution=False), True, cv("cvrp"), cvh)
    sd = [12, 14, 6, 9][:nn]
    add("sdvrp", R.SDVRPEnv(generator_params=dict(num_loc=nn), check_solution=False), True, cv("sdvrp", split=True),
        [("split-ints", TD(depot=dep, locs=locs, demand=F(sd) / 20.0), dict(dem=sd, cap=20)), cvh[1]])
    # CVRPTW: integer grid (x8), integer windows; arrival exactly at the window end is allowed
    ig = [[8 * v for v in p] for p in g]

    def tw(raw, dem=None, cap=1.0):
        return VRP("cvrptw", dist([L(raw["depot"])] + L(raw["locs"])), dem=[0] + (dem or L(raw["demand"])), cap=cap,
                   tw=L(raw["time_windows"]), svc=L(raw["durations"]))

    twin = torch.tensor([[[0, 40], [0, 3], [2, 7], [6, 9], [1, 30]][: nn + 1]])  # c1, c3 (via c1) reached exactly at the window end
    add("cvrptw", R.CVRPTWEnv(generator_params=dict(num_loc=nn), check_solution=False), True, tw,
        [("tw-equality", TD(depot=F(ig[0]), locs=F(ig[1:]), demand=F([5, 5, 5, 5][:nn]) / 20.0, durations=F([0, 1, 0, 2, 1][: nn + 1]),
                            time_windows=twin), dict(dem=[5] * nn, cap=20)),
         ("tw-fractional", TD(depot=F([0, 0]), locs=F([[3, 0.5], [0, 4], [3, 4], [-2, 1.5]][:nn]), demand=F([5, 5, 5, 5][:nn]) / 20.0, durations=F([0.0] * (nn + 1)),
                              time_windows=torch.tensor([[[0, 40], [0, 9], [0, 7], [4, 9], [1, 30]][: nn + 1]])), dict(dem=[5] * nn, cap=20))])
    # SVRP
    costs = [1, 2, 3]

    def sv(raw):
        return VRP("svrp", dist([L(raw["depot"])] + L(raw["locs"])), skill=[0] + [v[0] for v in L(raw["skills"])],
                   tech=[v[0] for v in L(raw["techs"])], cost=costs)

    far = F([[1.0, 0.0], [1.0, 0.125], [0.0, 0.5], [0.5, 0.5]][:nn])
    add("svrp", R.SVRPEnv(generator_params=dict(num_loc=nn, tech_costs=costs), check_solution=False), True, sv,
        [("skip-tech", TD(depot=dep, locs=far, techs=F([[1], [2], [3]]), skills=F([[1], [2], [3], [1]][:nn])), {}),
         ("tech0-all", TD(depot=dep, locs=locs, techs=F([[2], [3], [4]]), skills=F([[1], [2], [1], [2]][:nn])), {})])
    # OP: max_length equal to the length of the full grid tour / a partial one
    def op(raw):
        return VRP("op", dist([L(raw["depot"])] + L(raw["locs"])), prize=[0] + L(raw["prize"]), maxlen=L(raw["max_length"]))

    add("op", R.OPEnv(generator_params=dict(num_loc=nn), check_solution=False), True, op,
        [("len-equality", TD(depot=dep, locs=locs, prize=F([0.5, 0.25, 0.75, 1.0][:nn]), max_length=torch.tensor([1.75])), {}),
         ("len-slack", TD(depot=dep, locs=locs, prize=F([0.5, 0.25, 0.75, 1.0][:nn]), max_length=torch.tensor([1.3])), {})])
    # PCTSP / SPCTSP
    def pc(kind, key):
        return lambda raw: VRP(kind, dist([L(raw["depot"])] + L(raw["locs"])), prize=[0] + L(raw[key]), pen=[0] + L(raw["penalty"]), need=1.0)

    pch = [("prize-equality", TD(depot=dep, locs=locs, penalty=F([0.25, 0.5, 0.125, 0.25][:nn]), deterministic_prize=F([0.5, 0.25, 0.25, 0.5][:nn]),
                                 stochastic_prize=F([0.25, 0.25, 0.5, 0.75][:nn])), {}),
           ("prize-short", TD(depot=dep, locs=locs, penalty=F([0.25, 0.5, 0.125, 0.25][:nn]), deterministic_prize=F([0.25, 0.125, 0.25, 0.125][:nn]),
                              stochastic_prize=F([0.5, 0.125, 0.125, 0.125][:nn])), {})]
    add("pctsp", R.PCTSPEnv(generator_params=dict(num_loc=nn), check_solution=False), True, pc("pctsp", "deterministic_prize"), pch)
    add("spctsp", R.SPCTSPEnv(generator_params=dict(num_loc=nn), check_solution=False), True, pc("spctsp", "stochastic_prize"), pch)
    # PDP (num_loc even)
    ne = nn - nn % 2
    for force in (False, True):
        add("pdp-forced" if force else "pdp", R.PDPEnv(generator_params=dict(num_loc=ne), force_start_at_depot=force, check_solution=False), True,
            lambda raw, force=force: Perm("pdp", dist([L(raw["depot"])] + L(raw["locs"])), force), [("grid", TD(depot=dep, locs=locs[:, :ne]), {})])
    # mTSP
    for ct in ("minmax", "sum"):
        add(f"mtsp-{ct}", R.MTSPEnv(generator_params=dict(num_loc=nn + 1, min_num_agents=2, max_num_agents=3), cost_type=ct, check_solution=False), False,
            lambda raw, ct=ct: VRP("mtsp", dist(L(raw["locs"])), agents=int(raw["num_agents"][0]), minmax=ct == "minmax"),
            [("grid-2agents", TD(locs=F(g), num_agents=torch.tensor([2])), {})])
    # MDCPDP: generator format (capacity [B,1]) and per-depot capacity format (what _step indexes by depot)
    for mode in ("minsum", "minmax", "lateness", "lateness_square") if tier == "thorough" else ("minsum", "minmax", "lateness"):
        for nd in (1, 2):
            def md(raw, mode=mode, nd=nd):
                cap = [int(v) for v in raw["capacity"][0].tolist()]
                return MDCPDP(dist(L(raw["depot"]) + L(raw["locs"])), nd, cap * nd if len(cap) == 1 else cap, mode, float(raw["lateness_weight"][0, 0]))

            dp = F([g[0], [1 / 8, 1 / 8]][:nd])
            hand = [("gen-format-cap1", TD(depot=dp, locs=locs[:, :ne], capacity=torch.tensor([[1]]), lateness_weight=F([0.5])), {})]
            if nd == 2:
                hand.append(("per-depot-cap", TD(depot=dp, locs=locs[:, :ne], capacity=torch.tensor([[1, 2]]), lateness_weight=F([0.5])), {}))
            add(f"mdcpdp-{mode}-{nd}depot", R.MDCPDPEnv(generator_params=dict(num_loc=ne, num_depot=nd, min_capacity=1, max_capacity=2,
                min_lateness_weight=0.25, max_lateness_weight=0.75), reward_mode=mode, check_solution=False), False, md, hand)
    # MTVRP variants (documented generator format incl. depot at index 0)
    def mt(raw, dem=None, bh=None, cap=None):
        return VRP("mtvrp", dist(L(raw["locs"])), dem=dem or L(raw["demand_linehaul"]), bh=bh or L(raw["demand_backhaul"]),
                   cap=cap or float(raw["vehicle_capacity"][0, 0]), tw=L(raw["time_windows"]), svc=L(raw["service_time"]), speed=float(raw["speed"][0, 0]),
                   lim=float(raw["distance_limit"][0, 0]), open=bool(raw["open_route"][0, 0]))

    for var in ("cvrp", "ovrp", "vrpb", "vrpl", "vrptw", "ovrpbltw"):
        o, b, l_, t_ = "o" in var[:2], "b" in var[3:] or var == "vrpb", "l" in var[3:], "tw" in var
        lh = [0, 4, 3, 0 if b else 2, 0 if b else 3][: nn + 1]
        bhd = [0, 0, 0, 3 if b else 0, 5 if b else 0][: nn + 1]
        twm = [[0, 4.0], [0, 0.5], [0.5, 1.0], [0.25, 1.5], [0.125, 0.5]][: nn + 1] if t_ else [[0, INF]] * (nn + 1)
        hand = lambda twm=twm: TD(locs=F(g), demand_linehaul=F(lh), demand_backhaul=F(bhd), distance_limit=F([1.75 if l_ else INF]), time_windows=F(twm),
                  service_time=F(([0, 0.125, 0.25, 0.125, 0.125] if t_ else [0.0] * 5)[: nn + 1]), vehicle_capacity=F([7.0]), capacity_original=F([7.0]),
                  open_route=torch.tensor([[o]]), speed=F([1.0]))
        add(f"mtvrp-{var}", R.MTVRPEnv(generator_params=dict(num_loc=nn, variant_preset=var, capacity=12.0), check_solution=False), True, mt,
            [("grid-equalities", hand(), {})] + ([("tw-equality-only", hand([twm[0], [0.25, 0.375]] + twm[2:]), {})] if var == "vrptw" else []))
    return S


# ----------------------------------------------------------------------------------------------------- main
def main():
    args = _lib.args()
    thorough = args.tier == "thorough"
    torch.set_num_threads(2)
    sizes, ngen, nsolo = ((3, 4, 5), 4, 24) if thorough else ((3, 4), 2, 8)
    bound = (f"routing envs TSP ATSP CVRP CVRPTW SDVRP SVRP OP PCTSP SPCTSP PDP(free,forced) mTSP(minmax,sum) MDCPDP(minsum,minmax,lateness"
             f"{',lateness_square' if thorough else ''} x 1,2 depots) MTVRP(cvrp,ovrp,vrpb,vrpl,vrptw,ovrpbltw); customers n in {sizes} (mTSP/TSP n+1 nodes, PDP/MDCPDP "
             f"even part, MDCPDP/SDVRP/n=5 capped at n=4/3/..); per env and n: 1-2 hand-made exact boundary instances + {ngen} generator instances (seed {args.seed}); "
             f"ALL mask-admitted action sequences from reset (batched frontier, finished rows padded), brute-force oracle over all sequences, "
             f"{nsolo} solo replays and 2 mixed batches of 2-3 instances per env and n, checker on all mask solutions, up to {nsolo} hand-built feasible solutions "
             f"and all single-edit corruptions of up to {max(1, nsolo // 4)} of them")
    rep = _lib.Report(bound=bound, rule="case = (env config, instance, action sequence, phase at-done/after-padding/hand-built/corrupt/replay composition)",
                      exhaustive=False, max_violations=200)
    cx = Ctx(rep, args)
    for n in sizes:
        torch.manual_seed(args.seed * 1000 + n)
        for name, (env, checker, mk, hand) in specs(args.tier, n).items():
            if args.only and not any(o in (name, name.split("-")[0]) for o in args.only.split(",")):
                continue
            if n == 5 and name.split("-")[0] in ("sdvrp", "mdcpdp", "svrp", "mtsp"):
                continue  # enumeration too large

            def run(name=name, env=env, checker=checker, mk=mk, hand=hand):
                insts = [(lab, raw, mk(raw, **ex), True) for lab, raw, ex in hand]
                gen = env.generator(batch_size=[ngen])
                if name.startswith("mtvrp-vrpl") or name.startswith("mtvrp-ovrpbltw"):
                    gen["distance_limit"][:] = 2.0 * gen["locs"].norm(dim=-1).max() + 0.4  # make the limit bind
                insts += [(f"gen{i}", gen[i : i + 1].clone(), mk(gen[i : i + 1]), False) for i in range(ngen)]
                done = []
                for lab, raw, P, exact in insts:
                    inp = dict(env=name, instance=f"n{n}-{lab}", exact=exact, data=raw, at=f"@{lab}" if exact else "")
                    sols = explore(cx, name, env, raw, P, inp, checker)
                    bf = compare(cx, name, P, sols, inp, exact)
                    if checker:
                        corrupt(cx, name, env, raw, P, bf, inp, nsolo)
                    qs = sorted((q for q, _ in sols.values()), key=len)
                    done.append((raw, P, qs, inp))
                    for q in qs[:: max(1, len(qs) // nsolo)]:
                        joint(cx, name, env, [(raw, P, q, inp)], "solo", checker)
                done = [d for d in done if d[2]]
                for grp in (done[-2:], done[:1] + done[-2:]):  # mixed batches: generator only / hand-made next to generator instances
                    if len(grp) > 1:
                        joint(cx, name, env, [(r, P, (qs[0] if i == 0 else qs[-1]), inp) for i, (r, P, qs, inp) in enumerate(grp)], "mixed", checker)
                        joint(cx, name, env, [(r, P, qs[0], inp) for r, P, qs, inp in grp], "mixed", checker)

            rep.guard(run, f"{name} n={n}")
    return rep.finish()


if __name__ == "__main__":
    sys.exit(main())
