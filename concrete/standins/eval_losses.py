"""Bounded stand-in for C15 / C12 / C16 / C20: augmentation, evaluation, replication ops, RL losses, running statistics.

Real functions exercised (never used to produce their own expected value):
  rl4co.data.transforms (StateAugmentation, dihedral8, symmetric), rl4co.tasks.eval (evaluate_policy + 5 Eval classes),
  rl4co.utils.ops (batchify, unbatchify, gather_by_index, select_start_nodes, get_best_actions), decoding select_best,
  REINFORCE.calculate_loss + all baselines, POMO / SymNCO shared_step (+ symnco losses), A2C, PPO.shared_step, RewardScaler.

Clauses and oracles
 C15 aug.*      every copy a*B+b of StateAugmentation has the pairwise distances of instance b (1e-5), rows 0..B-1 equal the
                original, other keys are replicated; a random tour costs the same on every copy. Oracle: own cdist / own tour length.
                Configs: dihedral8, symmetric(A), plus options first_aug_identity=False and normalize=True.
 C15 eval.*     per instance: reported reward == own objective (tour length / route length / collected prize) of the returned
                actions on the ORIGINAL instance == max over the candidate rollouts, which are recomputed with the same policy,
                same torch seed and own row bookkeeping (row r <-> instance r mod B); returned actions are one of the maximising
                candidates; augmentation methods >= single greedy. Dataloader batch sizes dividing / not dividing / exceeding D.
                evaluate_policy with its default automatic batch size must not raise.
 C12 ops.*      batchify row r == x[r mod B]; unbatchify(batchify(x,s),s)[b,i..] == x[b]; unbatchify(y,(a,s))[b,i,j] == y[j*a*B+i*B+b]
                (tensors and TensorDicts, k, (a,s), (r,a,s)); gather_by_index vs python indexing.
 C12 start.*    env.select_start_nodes: every forced start has mask True for its instance; starts pairwise distinct per instance
                when >= k feasible starts exist (tsp, cvrp, op with unreachable nodes, pdp, mtvrp, flp, mcp).
 C12 best.*     policy(select_best=True) / POMO & SymNCO val shared_step / get_best_actions return, per instance, the max own
                objective among that instance's own rollouts, with the actions and log-likelihood of exactly that rollout.
 C16 *          calculate_loss == -mean((reward - bl_val) * ll) + bl_loss, bl_val/bl_loss from an own reference of each baseline
                (no, mean, exponential over 3 steps, critic, rollout(greedy of frozen copy), warmup mixtures, extra, shared);
                autograd gradient wrt policy+baseline params == gradient of the reference surrogate (reward/baseline detached);
                POMO / SymNCO advantages are centred per instance (reference built with own row bookkeeping); SymNCO invariance
                loss compares copies of the same instance; PPO loss == clipped-ratio surrogate + vf*huber - ent*entropy recomputed
                at every inner step, ratio == 1 before the first update.
 C20 *          RewardScaler mean/std == float64 mean / sample std of everything observed, output == stated transform, input not
                mutated, finite on constant batches; ExponentialBaseline recurrence; WarmupBaseline alpha = min(1,(e+1)/n) and
                convex combination of values and losses (stub inner baseline).
                REINFORCE.shared_step(train) runs with every baseline and yields a finite loss.
Tolerances: 1e-4 relative on rewards/losses/gradients; running statistics 1e-4 + 4*eps32*(max|x|/std)^2 (conditioning of float32 Welford).
Bound: stated exactly in Report(bound=...) built in main(); tiny attention policies (embed 16, 1 layer), float32, CPU.
Harness-side guards (no effect on valid runs): policies are called with max_steps=60 so that a decoding loop that never reaches
`done` ends, and a watchdog prints the JSON with an error when the time budget (--budget, default 600 s / 3000 s) is exhausted.
KNOWN lists the clauses that the unchanged library really falsifies (reported via rep.known, never silenced).
"""
import contextlib
import copy
import io
import itertools
import os
import sys
import threading
import warnings

sys.path.insert(0, os.path.dirname(os.path.abspath(__file__)))
import _lib  # noqa: E402

_lib.setup_path()
warnings.filterwarnings("ignore")
import logging  # noqa: E402

import torch  # noqa: E402
import torch.nn.functional as F  # noqa: E402
from tensordict import TensorDict  # noqa: E402
from torch.utils.data import DataLoader  # noqa: E402
from tqdm.auto import tqdm  # noqa: E402

from rl4co.data.dataset import TensorDictDataset  # noqa: E402
from rl4co.data.transforms import StateAugmentation  # noqa: E402
from rl4co.envs import get_env  # noqa: E402
from rl4co.models.rl import A2C, PPO, REINFORCE  # noqa: E402
from rl4co.models.rl.common.utils import RewardScaler  # noqa: E402
from rl4co.models.rl.common.critic import create_critic_from_actor  # noqa: E402
from rl4co.models.rl.reinforce.baselines import CriticBaseline, ExponentialBaseline, MeanBaseline, REINFORCEBaseline, WarmupBaseline  # noqa: E402
from rl4co.models.zoo.am import AttentionModelPolicy  # noqa: E402
from rl4co.models.zoo.pomo import POMO  # noqa: E402
from rl4co.models.zoo.symnco import SymNCO, SymNCOPolicy  # noqa: E402
from rl4co.models.zoo.symnco.losses import invariance_loss  # noqa: E402
from rl4co.tasks.eval import evaluate_policy  # noqa: E402
from rl4co.utils import ops  # noqa: E402
from rl4co.utils.ops import sample_n_random_actions  # noqa: E402

logging.disable(logging.WARNING)

_FAI = "StateAugmentation(first_aug_identity=False) indexes [list(td.size()), 0] = (row B, node 0): copy 1 of instance 0 gets one un-augmented node"
_NRM = "normalize=True min-max rescales all copies with one global factor: copies are similar, not congruent, and copy 0 is no longer the original"
KNOWN = {
    **{f"C15.aug.{f}.first_aug_identity=False.{c}": _FAI for f in ("dihedral8", "symmetric") for c in ("isometry", "tour-cost-preserved")},
    **{f"C15.aug.{f}.normalize=True.{c}": _NRM for f in ("dihedral8", "symmetric") for c in ("isometry", "tour-cost-preserved", "first-copy-is-original")},
    "C15.aug.symmetric.first_aug_identity=False.num_augment=1.IndexError": "same indexing bug: with a single copy row B does not exist -> IndexError",
    "C15.evaluate_policy.auto-batch-size.num_starts-lt-10.ZeroDivisionError": "get_automatic_batch_size divides by num_starts//10 == 0 when num_loc < 10 (multistart methods, default auto_batch_size=True)",
    "C12.start.op.infeasible-start-forced": "OP, k <= min #feasible: fixed starts 1..k are used even when masked (unreachable within max_length)",
    "C12.start.op.duplicate-starts-despite-k-feasible": "OP: if any row has < k feasible starts, all rows are resampled with replacement",
    "C12.best.get_best_actions.returns-best-rows": "get_best_actions unbatchifies by B instead of k and gathers on dim 0: shape [B,1,1], wrong rows",
    "C16.reinforce.rollout_only.bl_val": "RolloutBaseline.eval calls policy(td, env) with phase='train' => sampling, not the greedy rollout",
    "C16.reinforce.rollout_only.shared_step.raises": "policy(td) consumes td in place (done=True), RolloutBaseline.eval(td) then re-runs the policy on finished episodes -> AssertionError",
    "C16.reinforce.critic-by-name.embed_dim-neq-128.raises": "CriticBaseline.setup builds a 128-dim value head whatever the policy embed_dim (encoder has no embed_dim attribute)",
    "C12.best.symnco-val.best-actions-shape": "SymNCO val/test gathers best_multistart_actions on dim 1 instead of 2: best_aug_actions is [B, A, L] instead of [B, L]",
    "C16.symnco.invariance-loss.same-instance": "invariance_loss rearranges '(b a)' but rows are laid out (a b): compares different instances when B > 1",
    "C16.symnco.loss.S!=A.axes-mixed": "SymNCO unbatchify(reward,(n_start,n_aug)) on (s a b)-ordered rows mixes start/augment groups when n_start != n_aug",
    "C16.ppo.minibatch-fraction.batch-lt-4.raises": "PPO mini_batch_size=0.25 (default) with a batch of < 4 instances gives DataLoader(batch_size=0) -> ValueError",
    "C16.ppo.batchnorm.initial-ratio-is-one": "old log-probs use full-batch BatchNorm statistics, new ones mini-batch statistics: ratio != 1 before any update",
    "C20.rewardscaler.constant-batch.finite": "constant batch (e.g. 3 x 0.1): float32 Welford M2 < 0 -> sqrt -> NaN advantages",
    "C20.rewardscaler.scale.input-not-mutated": "scale='scale' divides the input tensor in place",
}
A = _lib.args()
THOROUGH = A.tier == "thorough"
REP = None


def fail(name, what, inp=None):
    (REP.known if name in KNOWN else REP.violation)(name, what, inp() if callable(inp) else inp)


def chk(cond, name, what, inp=None):
    if not bool(cond):
        fail(name, what, inp)
    return bool(cond)


def close(a, b, tol=1e-4):
    a, b = torch.as_tensor(a, dtype=torch.float64), torch.as_tensor(b, dtype=torch.float64)
    return a.shape == b.shape and bool(((a - b).abs() <= tol * (1 + b.abs())).all())


EPS = torch.finfo(torch.float32).eps


def cond_tol(allv):
    """relative tolerance for float32 running statistics: the batched Welford update loses ~eps*(max|x|/std)^2"""
    return 1e-4 + 4 * EPS * float(allv.abs().max() / allv.std().clamp_min(1e-30)) ** 2 if len(allv) > 1 else 1e-4


def quiet(fn, *a, **k):
    with contextlib.redirect_stdout(io.StringIO()), contextlib.redirect_stderr(io.StringIO()):
        return fn(*a, **k)


def mk_policy(env_name, cls=AttentionModelPolicy, **kw):
    class Capped(cls):  # harness-side bound only: a decoding loop that never reaches `done` stops after 60 steps instead of 1e6
        def forward(self, *a, **k):
            k.setdefault("max_steps", 60)
            return super().forward(*a, **k)

    return Capped(env_name=env_name, embed_dim=16, num_encoder_layers=1, num_heads=2, feedforward_hidden=32, **kw)


def objective(name, td, idx, acts):
    """Own objective of action rows `acts` [R,L] on ORIGINAL reset instances td[idx] (reward convention: higher is better)."""
    idx, acts = torch.as_tensor(idx), torch.as_tensor(acts)
    locs = td["locs"][idx].double()
    if name == "op":  # prize of the distinct visited nodes (depot prize 0)
        vis = torch.zeros(locs.shape[:2], dtype=torch.float64).scatter(1, acts, 1.0)
        return (vis * td["prize"][idx].double()).sum(1)
    path = locs.gather(1, acts[..., None].expand(-1, -1, 2))
    if name == "tsp":
        path = torch.cat([path, path[:, :1]], 1)
    else:  # cvrp: start and end at depot (node 0); zero padding adds nothing
        path = torch.cat([locs[:, :1], path, locs[:, :1]], 1)
    return -(path[:, 1:] - path[:, :-1]).norm(dim=-1).sum(1)


def my_dihedral(xy):
    x, y = xy[..., 0], xy[..., 1]
    f = [(x, y), (1 - x, y), (x, 1 - y), (1 - x, 1 - y), (y, x), (1 - y, x), (y, 1 - x), (1 - y, 1 - x)]
    return torch.cat([torch.stack(p, -1) for p in f], 0)


# ----------------------------------------------------------------------------------------------------------- C15
def sec_aug():
    gen = torch.Generator().manual_seed(A.seed + 1)
    fams = [("dihedral8", 8)] + [("symmetric", a) for a in ((2, 3, 8) if not THOROUGH else (1, 2, 3, 4, 8, 16))]
    opts = [{}, {"first_aug_identity": False}, {"normalize": True}]
    for (fam, na), opt, B, N, trial in itertools.product(fams, opts, (1, 2, 3), (2, 5, 8), range(3 if THOROUGH else 1)):
        locs = torch.rand(B, N, 2, generator=gen)
        if trial == 1:
            locs = torch.randint(0, 2, (B, N, 2), generator=gen).float()  # corners / duplicates
        tag = f"C15.aug.{fam}" + "".join(f".{k}={v}" for k, v in opt.items())
        td = TensorDict({"locs": locs, "aux": torch.arange(B)[:, None] + torch.zeros(B, 3)}, batch_size=[B])
        REP.case((tag, na, B, N, trial))
        torch.manual_seed(A.seed + trial)
        try:
            ta = StateAugmentation(num_augment=na, augment_fn=fam, **opt)(td.clone())
        except Exception as e:
            fail(tag + (".num_augment=1.IndexError" if na == 1 and isinstance(e, IndexError) else ".raises"), f"StateAugmentation raised {type(e).__name__}: {e}", {"locs": locs, "num_augment": na, "opts": opt})
            continue
        inp = lambda: {"locs": locs, "num_augment": na, "opts": opt, "seed": A.seed + trial}
        if not chk(ta["locs"].shape == (na * B, N, 2), tag + ".shape", f"shape {tuple(ta['locs'].shape)}", inp):
            continue
        d0 = torch.cdist(locs.double(), locs.double()).repeat(na, 1, 1)
        err = (torch.cdist(ta["locs"].double(), ta["locs"].double()) - d0).abs().amax((1, 2))
        chk(err.max() <= 1e-5, tag + ".isometry", f"pairwise distances differ by {err.max():.3g} on row {int(err.argmax())} (row = copy*B+inst)", inp)
        chk((ta["locs"][:B] - locs).abs().max() <= 1e-6, tag + ".first-copy-is-original", "rows 0..B-1 differ from the original", inp)
        chk(torch.equal(ta["aux"], td["aux"].repeat(na, 1)), tag + ".other-keys-replicated", "row r of a non-augmented key != instance r mod B", inp)
        perm = torch.stack([torch.randperm(N, generator=gen) for _ in range(B)]).repeat(na, 1)
        c_aug = objective("tsp", ta, torch.arange(na * B), perm)
        c_org = objective("tsp", td, torch.arange(B).repeat(na), perm)
        chk(close(c_aug, c_org, 1e-5), tag + ".tour-cost-preserved", "same tour has a different length on an augmented copy", inp)
    # dihedral8 must produce the 8 distinct symmetries of the unit square (own formula)
    locs = torch.rand(2, 5, 2, generator=gen)
    REP.case("C15.aug.dihedral8.formula")
    ta = StateAugmentation(num_augment=8, augment_fn="dihedral8")(TensorDict({"locs": locs}, batch_size=[2]))
    chk(close(ta["locs"], my_dihedral(locs), 1e-6), "C15.aug.dihedral8.is-the-8-square-symmetries", "copies differ from the dihedral group of the unit square", {"locs": locs})


def candidates(method, kw, pol, env, td):
    """Own re-computation of all candidate rollouts of one dataloader batch: returns actions [K*B, L] (row r <-> instance r mod B)."""
    B = td.shape[0]
    if "augment" in method:
        na = kw.get("num_augment", 8)
        if "dihedral" in method:
            td = torch.cat([td.clone() for _ in range(8)], 0).set("locs", my_dihedral(td["locs"]))
        else:  # random rotations: same seed -> same angles; isometry of this map is checked in sec_aug
            td = StateAugmentation(num_augment=na, augment_fn="symmetric")(td)
    if method == "sampling":
        out = pol(td.clone(), decode_type="sampling", num_starts=kw["samples"], multisample=True, select_best=False, temperature=1.0,
                  top_p=0.0, top_k=0, softmax_temp=kw.get("softmax_temp", 1.0), select_start_nodes_fn=lambda t, _, n: sample_n_random_actions(t, n))
    elif "multistart" in method:
        out = pol(td.clone(), decode_type="multistart_greedy", num_starts=env.generator.num_loc)
    else:
        out = pol(td.clone(), decode_type="greedy", num_starts=0)
    assert out["actions"].shape[0] % B == 0
    return out["actions"]


def sec_eval():
    D = 5
    methods = [("greedy", {}), ("sampling", {"samples": 4}), ("multistart_greedy", {}), ("augment", {"num_augment": 3}),
               ("augment_dihedral_8", {}), ("multistart_greedy_augment", {"num_augment": 3}), ("multistart_greedy_augment_dihedral_8", {})]
    for ename, N in itertools.product(("tsp", "cvrp", "op") if THOROUGH else ("tsp", "cvrp"), (6, 9) if THOROUGH else (6,)):
        for rnd in range(4 if THOROUGH else 1):
            torch.manual_seed(A.seed + 10 + rnd)
            env = quiet(get_env, ename, generator_params=dict(num_loc=N))
            pol = mk_policy(ename).eval()
            data = env.generator(batch_size=[D])
            ds, orig = TensorDictDataset(data), env.reset(data.clone())
            with torch.inference_mode():
                g = pol(orig.clone(), env, decode_type="greedy")["actions"]
            greedy_r = objective(ename, orig, torch.arange(D), g)
            for (method, kw), bs in itertools.product(methods, (1, 2, 5, 8) if THOROUGH else (2, 5)):
                tag, sd = f"C15.eval.{ename}.{method}", A.seed + 100 + rnd
                REP.case((tag, N, bs, rnd))
                inp = lambda b=None: {"env": ename, "num_loc": N, "method": method, "kwargs": kw, "batch_size": bs, "torch_seed": sd,
                                      "policy_seed": A.seed + 10 + rnd, "instance": b, "locs": orig["locs"] if b is None else orig["locs"][b]}
                torch.manual_seed(sd)
                try:
                    res = quiet(evaluate_policy, env, pol, ds, method=method, batch_size=bs, auto_batch_size=False, progress=False, **kw)
                except Exception as e:
                    fail(tag + ".raises", f"evaluate_policy raised {type(e).__name__}: {e} on a valid dataset", inp)
                    continue
                torch.manual_seed(sd)
                cands = [[] for _ in range(D)]
                with torch.inference_mode():
                    i = 0  # same loader+tqdm wrapper as evaluate_policy: creating loader iterators draws base seeds from the global RNG
                    for batch in tqdm(DataLoader(ds, batch_size=bs, shuffle=False, num_workers=0, collate_fn=ds.collate_fn), disable=True):
                        td = env.reset(batch)
                        acts = candidates(method, kw, pol, env, td)
                        for r in range(acts.shape[0]):
                            cands[i + r % td.shape[0]].append(acts[r])
                        i += td.shape[0]
                if not chk(res["rewards"].shape == (D,) and res["actions"].shape[0] == D, tag + ".shape", "one reward/action row per instance expected", inp):
                    continue
                own = objective(ename, orig, torch.arange(D), res["actions"])
                chk(close(own, res["rewards"]), tag + ".reward-is-objective-of-returned-actions",
                    f"reported {res['rewards'].tolist()} vs objective of returned actions on the original {own.tolist()}", inp)
                for b in range(D):
                    cr = torch.stack([objective(ename, orig, [b], c[None])[0] for c in cands[b]])
                    chk(close(res["rewards"][b], cr.max()), tag + ".reward-is-max-over-candidates",
                        f"instance {b}: reported {float(res['rewards'][b]):.5f}, max over {len(cr)} own candidates {float(cr.max()):.5f}", lambda: inp(b))
                    ra = res["actions"][b].tolist()
                    hit = any(ra[:len(c)] == c.tolist() and not any(ra[len(c):]) and close(cr[j], cr.max()) for j, c in enumerate(cands[b]))
                    chk(hit, tag + ".actions-are-a-best-candidate", f"instance {b}: returned actions {ra} are not a maximising candidate", lambda: inp(b))
                    if method.startswith("augment"):
                        chk(res["rewards"][b] >= greedy_r[b] - 1e-5, tag + ".not-worse-than-greedy",
                            f"instance {b}: {float(res['rewards'][b]):.5f} < greedy {float(greedy_r[b]):.5f}", lambda: inp(b))
    # default automatic batch size
    for nloc, (method, kw) in itertools.product((6, 12), [("greedy", {}), ("sampling", {"samples": 4}), ("multistart_greedy", {}), ("augment", {}), ("multistart_greedy_augment", {})]):
        torch.manual_seed(A.seed)
        env = get_env("tsp", generator_params=dict(num_loc=nloc))
        pol, ds = mk_policy("tsp").eval(), TensorDictDataset(env.generator(batch_size=[3]))
        REP.case(("C15.evaluate_policy.auto-batch-size", nloc, method))
        try:
            res = quiet(evaluate_policy, env, pol, ds, method=method, progress=False, **kw)
            chk(res["rewards"].shape == (3,), "C15.evaluate_policy.auto-batch-size.shape", "wrong number of rewards")
        except Exception as e:
            lt10 = isinstance(e, ZeroDivisionError) and nloc < 10 and "multistart" in method
            fail("C15.evaluate_policy.auto-batch-size." + ("num_starts-lt-10.ZeroDivisionError" if lt10 else "raises"),
                 f"evaluate_policy(default auto_batch_size) raised {type(e).__name__}: {e}", {"env": "tsp", "num_loc": nloc, "method": method, "kwargs": kw})


# ----------------------------------------------------------------------------------------------------------- C12
def sec_ops():
    gen = torch.Generator().manual_seed(A.seed + 2)
    shapes = [1, 2, 3, 5, (2, 3), (3, 2), (1, 4), (2, 3, 2), (3, 1, 2)] + ([7, (4, 4), (2, 2, 3), (5, 2, 1)] if THOROUGH else [])
    for B, shape in itertools.product((1, 2, 3, 4), shapes):
        REP.case(("C12.ops.batchify", B, str(shape)))
        ks = (shape,) if isinstance(shape, int) else shape
        K = int(torch.tensor(ks).prod())
        x = torch.rand(B, 3, 2, generator=gen)
        td = TensorDict({"a": x, "i": torch.arange(B), "n": TensorDict({"z": torch.rand(B, 2, generator=gen)}, batch_size=[B])}, batch_size=[B])
        inp = {"B": B, "shape": shape}
        for name, obj, get in (("tensor", x, lambda o: o), ("tensordict", td, lambda o: o["a"]), ("tensordict-nested-key", td, lambda o: o["n", "z"])):
            try:
                y = ops.batchify(obj, shape)
                ok = get(y).shape[0] == K * B and all(torch.equal(get(y)[r], get(obj)[r % B]) for r in range(K * B))
                chk(ok, f"C12.ops.batchify.{name}.row-r-is-instance-r-mod-B", "batchify row r != x[r mod B]", inp)
                u = get(ops.unbatchify(y, shape))
                ok = tuple(u.shape[:1 + len(ks)]) == (B, *ks) and torch.equal(u, get(obj).reshape(B, *([1] * len(ks)), *get(obj).shape[1:]).expand_as(u))
                chk(ok, f"C12.ops.unbatchify-batchify.{name}.identity", f"unbatchify(batchify(x)) != x replicated; shape {tuple(u.shape)}", inp)
                # generic (non replicated) rows: last factor is the outermost one, instance index the innermost
                w = torch.arange(K * B * 2).reshape(K * B, 2)
                wo = w if name == "tensor" else TensorDict({"a": w, "n": TensorDict({"z": w}, batch_size=[K * B])}, batch_size=[K * B])
                u = get(ops.unbatchify(wo, shape))
                ok = True
                for b, *ii in itertools.product(range(B), *[range(k) for k in ks]):
                    flat = 0
                    for k, i in zip(reversed(ks), reversed(ii)):
                        flat = flat * k + i
                    ok &= torch.equal(u[(b, *ii)], w[flat * B + b])
                chk(ok, f"C12.ops.unbatchify.{name}.row-mapping", "unbatchify(y,shape)[b,i1..in] != y[(in*..+i1)*B+b]", inp)
            except Exception as e:
                fail(f"C12.ops.batchify.{name}.raises", f"{type(e).__name__}: {e}", inp)
    for B, N, k, trial in itertools.product((1, 3), (1, 4), (1, 3), range(2)):
        REP.case(("C12.ops.gather_by_index", B, N, k, trial))
        src3, src2, src4 = torch.rand(B, N, 2, generator=gen), torch.rand(B, N, generator=gen), torch.rand(B, 3, N, 2, generator=gen)
        i1, ik, i2 = torch.randint(0, N, (B,), generator=gen), torch.randint(0, N, (B, k), generator=gen), torch.randint(0, N, (B, 3), generator=gen)
        exp_k = torch.stack([src3[b, ik[b]] for b in range(B)])
        ok = torch.equal(ops.gather_by_index(src3, i1), torch.stack([src3[b, i1[b]] for b in range(B)]))
        ok &= torch.equal(ops.gather_by_index(src2, i1), torch.stack([src2[b, i1[b]] for b in range(B)]))
        ok &= torch.equal(ops.gather_by_index(src3, ik, squeeze=False), exp_k) and torch.equal(ops.gather_by_index(src3, ik), exp_k.squeeze(1) if k == 1 else exp_k)
        ok &= torch.equal(ops.gather_by_index(src4, i2, dim=2), torch.stack([torch.stack([src4[b, a, i2[b, a]] for a in range(3)]) for b in range(B)]))
        chk(ok, "C12.ops.gather_by_index.matches-indexing", "gather_by_index differs from python indexing", {"B": B, "N": N, "k": k})


def sec_start():
    cfgs = {"tsp": dict(num_loc=6), "cvrp": dict(num_loc=6), "op": dict(num_loc=6, max_length=1.2), "pdp": dict(num_loc=6),
            "mtvrp": dict(num_loc=6, variant_preset="all"), "flp": {}, "mcp": {}}
    for ename, B, trial in itertools.product(cfgs, (1, 3, 4), range(4 if THOROUGH else 2)):
        torch.manual_seed(A.seed + 20 + trial)
        env = quiet(get_env, ename, generator_params=cfgs[ename])
        td = env.reset(env.generator(batch_size=[B]))
        mask = td["action_mask"]
        first = mask if ename in ("tsp", "flp", "mcp") else mask[:, 1:]  # non-depot first moves
        ns = env.get_num_starts(td)
        for k in sorted({1, 2, 3, ns // 2, ns}):
            REP.case(("C12.start", ename, B, trial, k))
            inp = lambda: {"env": ename, "generator_params": cfgs[ename], "B": B, "num_starts": k, "torch_seed": A.seed + 20 + trial,
                           "action_mask": mask if mask.numel() <= 64 else "<large>"}
            try:
                sel = env.select_start_nodes(td, k)
            except Exception as e:
                fail(f"C12.start.{ename}.raises", f"select_start_nodes raised {type(e).__name__}: {e}", inp)
                continue
            if not chk(sel.shape == (k * B,), f"C12.start.{ename}.shape", f"shape {tuple(sel.shape)} != ({k * B},)", inp):
                continue
            sel = sel.view(k, B).T  # own bookkeeping: row s*B+b belongs to instance b
            feas = mask.gather(1, sel)
            enough = first.sum(1) >= k
            dist = torch.tensor([len(set(sel[b].tolist())) == k for b in range(B)])
            if ename == "op":
                chk(feas.all(), "C12.start.op.infeasible-start-forced" if (first.sum(1) >= k).all() else "C12.start.op.feasible",
                    f"forced start nodes {sel.tolist()} include masked nodes", inp)
                chk((dist | ~enough).all(), "C12.start.op.duplicate-starts-despite-k-feasible" if (~enough).any() else "C12.start.op.distinct",
                    f"starts {sel.tolist()} repeat although >= k feasible starts exist", inp)
            else:
                chk(feas.all(), f"C12.start.{ename}.feasible", f"forced start nodes {sel.tolist()} include masked nodes", inp)
                chk((dist | ~enough).all(), f"C12.start.{ename}.distinct", f"starts {sel.tolist()} repeat although >= k feasible starts exist", inp)


def capture_step(model, batch, phase):
    cap = {}
    model.log_metrics = lambda out, phase, dataloader_idx=None: (cap.update(out), {})[1]
    model.shared_step(batch, 0, phase)
    return cap


def sec_best():
    for ename, B, k, dec, trial in itertools.product(("tsp", "cvrp"), (1, 3), (2, 5), ("multistart_greedy", "multistart_sampling", "sampling"), range(2 if THOROUGH else 1)):
        torch.manual_seed(A.seed + 30 + trial)
        env = quiet(get_env, ename, generator_params=dict(num_loc=6))
        pol, td = mk_policy(ename).eval(), env.reset(batch_size=[B])
        kw = dict(decode_type=dec, num_starts=k) if "multistart" in dec else dict(decode_type=dec, num_samples=k)
        tag = f"C12.best.policy-select-best.{ename}.{dec}"
        REP.case((tag, B, k, trial))
        outs = []
        for sb in (False, True):
            torch.manual_seed(A.seed + 31)
            with torch.no_grad():
                outs.append(pol(td.clone(), env, select_best=sb, **kw))
        allo, best = outs
        inp = lambda: {"env": ename, "B": B, "k": k, "decode_type": dec, "locs": td["locs"], "all_actions": allo["actions"], "best_actions": best["actions"]}
        if not chk(allo["actions"].shape[0] == k * B and best["actions"].shape[0] == B, tag + ".shape", "expected k*B candidate rows and B best rows", inp):
            continue
        r = objective(ename, td, torch.arange(k * B) % B, allo["actions"]).view(k, B)
        chk(close(allo["reward"], r.reshape(-1)), tag + ".row-r-belongs-to-instance-r-mod-B", "reward of row r is not the objective of its actions on instance r mod B", inp)
        for b in range(B):
            s = [s for s in range(k) if torch.equal(allo["actions"][s * B + b], best["actions"][b])]
            ok = bool(s) and close(r[s[0], b], r[:, b].max()) and close(best["reward"][b], r[:, b].max()) and any(close(best["log_likelihood"][b], allo["log_likelihood"][j * B + b], 1e-5) for j in s)
            chk(ok, tag + ".max-with-its-actions-and-ll", f"instance {b}: selected rollout is not that instance's best rollout with its own actions/log-likelihood", inp)
    # get_best_actions(actions [k*B, L], argmax [B]) -> the best rows
    for B, k in ((1, 3), (3, 4)):
        REP.case(("C12.best.get_best_actions", B, k))
        acts, idx = torch.arange(k * B * 5).view(k * B, 5), torch.arange(B) % k
        exp = torch.stack([acts[idx[b] * B + b] for b in range(B)])
        try:
            got = ops.get_best_actions(acts, idx)
            chk(got.numel() == exp.numel() and torch.equal(got.reshape(exp.shape), exp), "C12.best.get_best_actions.returns-best-rows",
                f"got shape {tuple(got.shape)} values {got.flatten().tolist()[:8]}, expected rows {exp.tolist()}", {"B": B, "k": k, "max_idxs": idx})
        except Exception as e:
            fail("C12.best.get_best_actions.returns-best-rows", f"raised {type(e).__name__}: {e}", {"B": B, "k": k})
    # POMO / SymNCO validation step: best-of-(augment x start)
    cfgs = [("pomo", "dihedral8", 8, None), ("pomo", "symmetric", 3, 4), ("pomo", "symmetric", 1, None), ("symnco", "symmetric", 3, 3), ("symnco", "symmetric", 2, 5), ("symnco", "symmetric", 4, 0)]
    for (algo, fam, na, S), ename, B in itertools.product(cfgs, ("tsp", "cvrp"), (1, 3)):
        torch.manual_seed(A.seed + 40)
        env = quiet(get_env, ename, generator_params=dict(num_loc=6))
        tag = f"C12.best.{algo}-val.{ename}"
        REP.case((tag, fam, na, S, B))
        batch = env.generator(batch_size=[B])
        orig = env.reset(batch.clone())
        model = POMO(env, mk_policy(ename), num_augment=na, augment_fn=fam, num_starts=S) if algo == "pomo" else SymNCO(env, mk_policy(ename, SymNCOPolicy), num_augment=na, augment_fn=fam, num_starts=S)
        inp = {"algo": algo, "env": ename, "augment_fn": fam, "num_augment": na, "num_starts": S, "B": B, "seed": A.seed + 40}
        try:
            with torch.no_grad():
                cap = capture_step(model.eval(), batch.clone(), "val")
        except Exception as e:
            fail(tag + ".raises", f"shared_step(val) raised {type(e).__name__}: {e}", inp)
            continue
        Sx = S if S else (env.get_num_starts(orig) if S is None else 1)
        R = cap["reward"].reshape(-1)
        acts = cap["actions"].reshape(-1, cap["actions"].shape[-1]) if S != 0 else cap["actions"]
        if not chk(R.shape[0] == Sx * max(na, 1) * B, tag + ".shape", f"{R.shape[0]} rollouts for B={B}, A={na}, S={Sx}", inp):
            continue
        best = R.view(-1, B).max(0).values  # own bookkeeping: row r <-> instance r mod B
        key = "max_aug_reward" if na > 1 else "max_reward"
        chk(close(cap[key].reshape(-1), best), tag + ".max-over-own-rollouts", f"{key} {cap[key].reshape(-1).tolist()} != max over the instance's rollouts {best.tolist()}", inp)
        ba = cap.get("best_aug_actions") if na > 1 else cap.get("best_multistart_actions", torch.zeros(0)).squeeze(1)  # [B, A=1, L] without augmentation
        ba = None if ba is None or ba.numel() == 0 else ba
        if ba is not None and chk(ba.dim() == 2, f"C12.best.{algo}-val.best-actions-shape", f"best actions have shape {tuple(ba.shape)}, expected [B, L]", inp):
            chk(close(objective(ename, orig, torch.arange(B), ba.reshape(B, -1)), best), tag + ".best-actions-achieve-max", "objective of the reported best actions on the original instance != reported max", inp)
        if algo == "pomo":  # per augmentation copy best-of-starts, rows laid out (s, a, b)
            Rr = R.view(Sx, max(na, 1), B)
            chk(close(cap["max_reward"].reshape(B, -1), Rr.max(0).values.T), tag + ".max_reward-per-copy", "max_reward[b,a] != max_s reward[s,a,b]", inp)
            o = objective(ename, orig, torch.arange(R.shape[0]) % B, cap["actions"].permute(2, 1, 0, 3).reshape(R.shape[0], -1))
            chk(close(o, R), tag + ".row-r-belongs-to-instance-r-mod-B", "reward of rollout (s,a,b) is not the objective of its actions on original instance b", inp)


# ----------------------------------------------------------------------------------------------------------- C16
def grads(loss, params):
    if not (torch.is_tensor(loss) and loss.requires_grad):
        return [torch.zeros_like(p) for p in params]
    return [torch.zeros_like(p) if g is None else g for p, g in zip(params, torch.autograd.grad(loss, params, allow_unused=True, retain_graph=True))]


def same_grads(ga, gb, tol=1e-4):
    scale = max(1e-6, max(float(g.abs().max()) for g in gb))
    return all(float((a - b).abs().max()) <= tol * scale + 1e-7 for a, b in zip(ga, gb))


class StubBaseline(REINFORCEBaseline):
    def __init__(self, val, loss):
        super().__init__()
        self.val, self.loss, self.epochs = val, loss, []

    def eval(self, td, reward, env=None):
        return torch.full_like(reward, self.val), self.loss

    def epoch_callback(self, *a, **kw):
        self.epochs.append(kw["epoch"])


def sec_reinforce():
    env = get_env("tsp", generator_params=dict(num_loc=5))
    names = ["no", "mean", "exponential", "critic", "rollout_only", "warmup-critic", "extra", "a2c", "scale-norm", "scale-scale", "scale-2"]
    for name, B, rnd in itertools.product(names, (2, 5) if not THOROUGH else (1, 2, 5, 8), range(4 if THOROUGH else 1)):
        torch.manual_seed(A.seed + 50 + rnd)
        pol = mk_policy("tsp")
        scale = {"scale-norm": "norm", "scale-scale": "scale", "scale-2": 2}.get(name)
        if scale is not None and B == 1:
            continue
        mk_crit = lambda: CriticBaseline(create_critic_from_actor(pol, embed_dim=16, hidden_dim=32))
        if name == "a2c":
            model = A2C(env, pol, critic_kwargs=dict(embed_dim=16, hidden_dim=32))
        elif name in ("critic", "warmup-critic"):
            model = REINFORCE(env, pol, baseline=mk_crit() if name == "critic" else WarmupBaseline(mk_crit(), n_epochs=2, warmup_exp_beta=0.7))
        else:
            model = REINFORCE(env, pol, baseline=name if name in ("mean", "exponential", "rollout_only") else "no", reward_scale=scale)
        bl = model.baseline
        quiet(bl.setup, pol, env, batch_size=4, device="cpu", dataset_size=4)
        frozen = copy.deepcopy(pol).eval()  # what a greedy-rollout baseline must evaluate
        params = list(pol.parameters()) + list(bl.parameters())
        ema, seen = {}, []
        for step in range(3):
            tag = f"C16.reinforce.{name}"
            REP.case((tag, B, rnd, step))
            batch = env.generator(batch_size=[B])
            td = env.reset(batch.clone())
            out = pol(td.clone(), env, phase="train")
            r, ll = out["reward"], out["log_likelihood"]
            if name == "extra":
                batch.set("extra", torch.rand(B))
            if name == "warmup-critic" and step > 0:
                bl.epoch_callback(pol, env=env, batch_size=4, device="cpu", epoch=step - 1, dataset_size=4)
            inp = lambda: {"baseline": name, "B": B, "step": step, "seed": A.seed + 50 + rnd, "reward": r, "log_likelihood": ll}
            try:
                lib = model.calculate_loss(td.clone(), batch, dict(out))  # fresh state: the policy consumes the td it is given
            except Exception as e:
                fail(tag + ".raises", f"calculate_loss raised {type(e).__name__}: {e}", inp)
                break
            # ---- own reference of the baseline
            crit = getattr(bl, "critic", None) or getattr(getattr(bl, "baseline", None), "critic", None)
            v = crit(td).squeeze(-1) if crit is not None else None
            def ema_step(key, beta):
                ema[key] = r.mean() if ema.get(key) is None else beta * ema[key] + (1 - beta) * r.mean()
                return ema[key].detach()
            if name in ("no",) or scale is not None:
                ref_bl, ref_bll = torch.zeros(()), 0.0
            elif name == "mean":
                ref_bl, ref_bll = r.mean(), 0.0
            elif name == "exponential":
                ref_bl, ref_bll = ema_step("e", 0.8), 0.0
            elif name in ("critic", "a2c"):
                ref_bl, ref_bll = v.detach(), F.mse_loss(v, r)
            elif name == "rollout_only":
                with torch.no_grad():
                    ga = frozen(td.clone(), env, decode_type="greedy")["actions"]
                ref_bl, ref_bll = objective("tsp", td, torch.arange(B), ga).float(), 0.0
            elif name == "warmup-critic":
                al = min(1.0, step / 2)
                ref_bl = v.detach() if al == 1 else (ema_step("w", 0.7) if al == 0 else al * v.detach() + (1 - al) * ema_step("w", 0.7))
                ref_bll = al * F.mse_loss(v, r)
            else:
                ref_bl, ref_bll = batch["extra"], 0.0
            lbl = torch.as_tensor(lib["bl_val"]).float()
            chk(close(lbl.expand_as(r), torch.as_tensor(ref_bl).float().expand_as(r)), tag + ".bl_val", f"bl_val {lbl.flatten().tolist()[:5]} != reference {torch.as_tensor(ref_bl).flatten().tolist()[:5]}", inp)
            chk(not lbl.requires_grad and not r.requires_grad, tag + ".baseline-and-reward-detached", "bl_val or reward carries a graph", inp)
            adv, tol = (r - lbl).detach(), 1e-4  # structure of the surrogate is checked with the library's own baseline value
            if scale is not None:
                seen.append(adv.double())
                allv = torch.cat(seen)
                std = allv.std().float() + EPS
                adv = adv / scale if isinstance(scale, int) else ((adv - allv.mean().float()) / std if scale == "norm" else adv / std)
                tol = cond_tol(allv)
            ref = -(adv * ll).mean() + ref_bll
            chk(close(lib["loss"], ref, tol), tag + ".loss-equals-surrogate", f"loss {float(lib['loss']):.6f} != -mean((r-b)*ll)+bl_loss {float(ref):.6f}", inp)
            chk(same_grads(grads(lib["loss"], params), grads(ref, params), tol), tag + ".gradient-equals-surrogate-gradient", "autograd gradient of the loss differs from the gradient of the reference surrogate", inp)
        # the training step itself (reset -> policy -> calculate_loss) must work with the same baseline and give a finite loss
        REP.case((f"C16.reinforce.{name}.shared_step", B, rnd))
        try:
            cap = capture_step(model, env.generator(batch_size=[B]), "train")
            chk(torch.isfinite(cap["loss"]).all(), f"C16.reinforce.{name}.shared_step.finite-loss", f"loss {cap['loss']}", {"baseline": name, "B": B})
        except Exception as e:
            fail(f"C16.reinforce.{name}.shared_step.raises", f"REINFORCE.shared_step(train) raised {type(e).__name__}: {e}", {"baseline": name, "B": B, "seed": A.seed + 50 + rnd})
    REP.case("C16.reinforce.critic-by-name")
    pol = mk_policy("tsp")
    model = REINFORCE(env, pol, baseline="critic")
    try:
        model.baseline.setup(pol, env)
        capture_step(model, env.generator(batch_size=[3]), "train")
    except Exception as e:
        fail("C16.reinforce.critic-by-name.embed_dim-neq-128.raises", f"REINFORCE(baseline='critic') with a 16-dim policy raised {type(e).__name__}: {e}", {"embed_dim": 16})


def sec_shared():
    for ename, B, S, rnd in itertools.product(("tsp", "cvrp"), (1, 3), (None, 3), range(4 if THOROUGH else 1)):
        torch.manual_seed(A.seed + 60 + rnd)
        env = quiet(get_env, ename, generator_params=dict(num_loc=5))
        pol = mk_policy(ename)
        model, batch = POMO(env, pol, num_starts=S), env.generator(batch_size=[B])
        tag = f"C16.pomo.{ename}"
        REP.case((tag, B, S, rnd))
        orig = env.reset(batch.clone())
        cap = capture_step(model, batch.clone(), "train")
        Sx = S or env.get_num_starts(orig)
        inp = lambda: {"env": ename, "B": B, "num_starts": S, "seed": A.seed + 60 + rnd, "reward": cap["reward"], "locs": orig["locs"]}
        if not chk(cap["reward"].shape == (Sx * B,), tag + ".shape", f"reward shape {tuple(cap['reward'].shape)}", inp):
            continue
        chk(close(objective(ename, orig, torch.arange(Sx * B) % B, cap["actions"]), cap["reward"]), tag + ".row-r-belongs-to-instance-r-mod-B", "reward row r is not the objective of its actions on instance r mod B", inp)
        R, LL = cap["reward"].view(Sx, B).T, cap["log_likelihood"].view(Sx, B).T
        adv = R - R.mean(1, keepdim=True)
        blv = torch.as_tensor(cap["bl_val"])
        chk(blv.numel() == B and close(blv.reshape(B), R.mean(1)), tag + ".shared-baseline-is-instance-mean", "bl_val != mean over the instance's own starts (advantages not centred per instance)", inp)
        ref = -(adv.detach() * LL).mean()
        chk(close(cap["loss"], ref), tag + ".loss-equals-surrogate", f"loss {float(cap['loss']):.6f} != reference {float(ref):.6f}", inp)
        chk(same_grads(grads(cap["loss"], list(pol.parameters())), grads(ref, list(pol.parameters()))), tag + ".gradient-equals-surrogate-gradient", "gradient differs from reference", inp)
    for (na, S), B, beta in itertools.product(((3, 0), (3, 3), (2, 2), (2, 4), (4, 2)), (1, 3), (1.0,)):
        torch.manual_seed(A.seed + 70)
        env = get_env("tsp", generator_params=dict(num_loc=5))
        pol = mk_policy("tsp", SymNCOPolicy)
        model, batch = SymNCO(env, pol, num_augment=na, num_starts=S, beta=beta, alpha=0.2), env.generator(batch_size=[B])
        tag = "C16.symnco"
        REP.case((tag, na, S, B))
        cap = capture_step(model, batch.clone(), "train")
        Sx = max(S, 1)
        inp = lambda: {"num_augment": na, "num_starts": S, "B": B, "seed": A.seed + 70, "reward": cap["reward"]}
        # rows are laid out (s, a, b): multistart replicates the already augmented batch
        chk(S == 0 or bool((cap["actions"][:, 0].view(Sx, na * B) == torch.arange(Sx)[:, None]).all()), tag + ".rows-are-(s,a,b)", "first action of row r != start r // (A*B)", inp)
        R, LL = cap["reward"].view(Sx, na, B), cap["log_likelihood"].view(Sx, na, B)
        l_ps = -((R - R.mean(1, keepdim=True)).detach() * LL).mean() if na > 1 else 0.0  # baseline over the augmented problems
        l_ss = -((R - R.mean(0, keepdim=True)).detach() * LL).mean() if Sx > 1 else 0.0  # baseline over the starts of one problem
        ref, lib = l_ps + beta * l_ss, cap["loss_ps"] + beta * cap["loss_ss"]
        nm = tag + (".loss.S!=A.axes-mixed" if S not in (0, na) else ".loss-equals-shared-baseline-surrogates")
        chk(close(lib, ref, 1e-5) and same_grads(grads(lib, list(pol.parameters())), grads(ref, list(pol.parameters()))), nm,
            f"loss_ps+beta*loss_ss {float(lib):.6f} != per-instance centred reference {float(ref):.6f} (or gradients differ)", inp)
        pe = cap["proj_embeddings"].view(na, B, *cap["proj_embeddings"].shape[1:])
        ref_inv = sum(F.cosine_similarity(pe[0], pe[i], dim=-1) for i in range(1, na)).mean()
        chk(close(cap["loss_inv"], ref_inv, 1e-5), tag + ".invariance-loss.same-instance", f"loss_inv {float(cap['loss_inv']):.6f} != similarity between copies of the same instance {float(ref_inv):.6f}", inp)
        chk(close(cap["loss"], lib + 0.2 * cap["loss_inv"], 1e-5), tag + ".total-is-weighted-sum", "loss != loss_ps + beta*loss_ss + alpha*loss_inv", inp)
        REP.case((tag + ".invariance_loss-direct", na, B))
        pr = torch.rand(na * B, 4, 6)
        ref_inv = sum(F.cosine_similarity(pr.view(na, B, 4, 6)[0], pr.view(na, B, 4, 6)[i], dim=-1) for i in range(1, na)).mean()
        chk(close(invariance_loss(pr, na), ref_inv, 1e-5), tag + ".invariance-loss.same-instance", "invariance_loss pairs rows of different instances", {"num_augment": na, "B": B})


def sec_ppo():
    env = get_env("tsp", generator_params=dict(num_loc=5))
    cfgs = [(8, 0.5, "instance", 0.1, 0.01), (6, 3, "instance", 0.2, 0.0), (4, 1.0, "instance", 0.05, 0.1), (8, 0.5, "batch", 0.1, 0.01), (3, 0.25, "instance", 0.2, 0.0), (9, 0.25, "instance", 0.2, 0.0)]
    clipped = 0
    for (B, mbs, norm, clip, ent), rnd in itertools.product(cfgs, range(4 if THOROUGH else 1)):
        torch.manual_seed(A.seed + 80 + rnd)
        pol = mk_policy("tsp", normalization=norm)
        model = PPO(env, pol, clip_range=clip, ppo_epochs=2, mini_batch_size=mbs, entropy_lambda=ent, vf_lambda=0.5, critic_kwargs=dict(embed_dim=16, hidden_dim=32))
        opt = torch.optim.SGD(list(pol.parameters()) + list(model.critic.parameters()), lr=0.05)
        tag, calls, steps = "C16.ppo", [], []
        REP.case((tag, B, mbs, norm, clip, ent, rnd))
        inp = {"B": B, "mini_batch_size": mbs, "normalization": norm, "clip_range": clip, "entropy_lambda": ent, "seed": A.seed + 80 + rnd}
        hook = pol.register_forward_pre_hook(lambda m, a, k: calls.append((a[0].clone(), k["actions"].clone())) if k.get("actions") is not None else None, with_kwargs=True)

        def manual_backward(loss):
            nonlocal clipped
            sub, acts = calls.pop()
            o = pol(sub.clone(), actions=acts, env=env, return_entropy=True, return_sum_log_likelihood=False)
            calls.pop()
            ratio = (o["log_likelihood"].sum(-1) - sub["logprobs"]).exp()
            v, r = model.critic(sub).squeeze(-1), sub["reward"]
            adv = r - v.detach()
            clipped += int(((ratio < 1 - clip) | (ratio > 1 + clip)).any())
            sur = -torch.where(adv >= 0, torch.minimum(ratio, torch.tensor(1 + clip)), torch.maximum(ratio, torch.tensor(1 - clip))).mul(adv).mean()
            ref = sur + 0.5 * F.huber_loss(v, r) - ent * o["entropy"].mean()
            ps = list(pol.parameters()) + list(model.critic.parameters())
            steps.append((float(loss), float(ref), same_grads(grads(loss, ps), grads(ref, ps)), float((ratio - 1).abs().max())))
            loss.backward()

        model.optimizers, model.clip_gradients, model.manual_backward = (lambda: opt), (lambda *a, **k: None), manual_backward
        try:
            capture_step(model, env.generator(batch_size=[B]), "train")
        except Exception as e:
            small = isinstance(mbs, float) and int(B * mbs) == 0
            fail(tag + (".minibatch-fraction.batch-lt-4.raises" if small and isinstance(e, ValueError) else ".raises"), f"PPO.shared_step raised {type(e).__name__}: {e}", inp)
            continue
        finally:
            hook.remove()
        n_mb = -(-B // (mbs if isinstance(mbs, int) else int(B * mbs))) * 2
        chk(len(steps) == n_mb, tag + ".inner-steps", f"{len(steps)} inner optimisation steps, expected {n_mb} (2 epochs over all mini-batches)", inp)
        for i, (l, ref, gok, dev) in enumerate(steps):
            chk(close(l, ref) and gok, tag + ".loss-equals-clipped-surrogate", f"inner step {i}: loss {l:.6f} vs reference {ref:.6f}, gradients equal: {gok}", inp)
        chk(steps[0][3] <= 1e-4, tag + (".batchnorm" if norm == "batch" else "") + ".initial-ratio-is-one", f"max |ratio-1| = {steps[0][3]:.4f} before any parameter update", inp)
    if not clipped:
        REP.error("C16.ppo: clipping was never active in any inner step; the clipped-surrogate clause was not exercised")


# ----------------------------------------------------------------------------------------------------------- C20
def sec_scaler():
    gen = torch.Generator().manual_seed(A.seed + 3)
    for mode, (mag, off), trial in itertools.product((None, 3, "norm", "scale"), ((1, 0), (1e3, 0), (1e-3, 0), (1, 5), (50, -200)), range(6 if THOROUGH else 2)):
        sc, seen = RewardScaler(mode), []
        sizes = torch.randint(1, 10, (int(torch.randint(2, 7, (1,), generator=gen)),), generator=gen).tolist()
        for j, n in enumerate(sizes):
            x = torch.randn((n,) if j % 2 else (n, 1), generator=gen) * mag + off
            tag = f"C20.rewardscaler.{mode}"
            REP.case((tag, mag, off, trial, j))
            x0 = x.clone()
            y = sc(x)
            seen.append(x0.double().reshape(-1))
            allv = torch.cat(seen)
            inp = lambda: {"scale": mode, "batches": [s.tolist() for s in seen]}
            if mode in ("norm", "scale"):
                m, sd, tol = allv.mean(), allv.std(), cond_tol(allv)  # sample std (n-1)
                lib_sd = float((sc.M2 / max(sc.count - 1, 1)) ** 0.5)
                ok = len(allv) < 2 or (abs(float(sc.mean) - m) <= 1e-5 * allv.abs().max() and abs(lib_sd - sd) <= tol * sd)
                chk(sc.count == len(allv) and ok, tag + ".running-mean-std", f"count/mean/std {sc.count}/{float(sc.mean):.6g}/{lib_sd:.6g} vs {len(allv)}/{m:.6g}/{sd:.6g}", inp)
                exp = (x0.double() - m) / (sd + EPS) if mode == "norm" else x0.double() / (sd + EPS)
                ok = len(allv) < 2 or bool(((y.double() - exp).abs() <= tol * (1 + exp.abs()) + 1e-5 * allv.abs().max() / sd).all())
                chk(y.shape == x0.shape and ok, tag + ".output-is-stated-transform", f"output {y.flatten().tolist()[:4]} vs {exp.flatten().tolist()[:4]}", inp)
            else:
                chk(torch.equal(y, x0 if mode is None else x0 / mode), tag + ".output-is-stated-transform", "None -> identity, int -> division expected", inp)
            chk(torch.equal(x, x0), f"C20.rewardscaler.{mode}.input-not-mutated", "the input tensor was modified in place", inp)
    for mode, c, n in itertools.product(("norm", "scale"), (0.1, 0.3, 100.1, -3.7, 7.0), (2, 3, 5, 7, 10, 64)):
        REP.case(("C20.rewardscaler.constant", mode, c, n))
        y = RewardScaler(mode)(torch.full((n,), c))
        chk(not torch.isnan(y).any(), "C20.rewardscaler.constant-batch.finite", f"NaN output for a constant batch of {n} x {c}", {"scale": mode, "value": c, "n": n})


def sec_baselines():
    gen = torch.Generator().manual_seed(A.seed + 4)
    for beta, trial in itertools.product((0.0, 0.5, 0.8, 1.0), range(3 if THOROUGH else 1)):
        bl, v = (ExponentialBaseline(beta) if beta else MeanBaseline()), None
        for j in range(5):
            REP.case(("C20.exponential", beta, trial, j))
            r = torch.randn(int(torch.randint(1, 9, (1,), generator=gen)), generator=gen) * 3 - 5
            v = r.double().mean() if v is None else beta * v + (1 - beta) * r.double().mean()
            got, loss = bl.eval(None, r.clone().requires_grad_(True))
            chk(close(got, v, 1e-5) and not got.requires_grad and loss == 0, "C20.exponential.recurrence", f"step {j}: baseline {float(got):.6f} != beta*v+(1-beta)*mean(r) = {float(v):.6f} (first call mean(r)), detached, zero loss", {"beta": beta, "step": j, "reward": r})
    for n, (vb, lb) in itertools.product((1, 2, 4, 5), ((2.0, 0.5), (-1.0, 0.0))):
        stub = StubBaseline(vb, lb)
        wb, v = WarmupBaseline(stub, n_epochs=n, warmup_exp_beta=0.6), None
        for e in range(-1, n + 2):
            REP.case(("C20.warmup", n, vb, e))
            if e >= 0:
                wb.epoch_callback(None, env=None, epoch=e)
            alpha = 0.0 if e < 0 else min(1.0, (e + 1) / n)
            inp = {"n_epochs": n, "epoch": e, "inner_value": vb, "inner_loss": lb}
            chk(abs(wb.alpha - alpha) <= 1e-12, "C20.warmup.alpha-schedule", f"alpha {wb.alpha} != min(1,(epoch+1)/n_epochs) = {alpha}", inp)
            r = torch.randn(4, generator=gen)
            if alpha < 1:  # the warm-up EMA is only advanced while it is used
                v = r.double().mean() if v is None else 0.6 * v + 0.4 * r.double().mean()
            got, loss = wb.eval(None, r)
            exp = alpha * vb + (1 - alpha) * (v if alpha < 1 else 0.0)
            chk(close(torch.as_tensor(got).expand(4), torch.full((4,), float(exp)), 1e-5) and abs(float(loss) - alpha * lb) <= 1e-6, "C20.warmup.convex-combination",
                f"value {torch.as_tensor(got).flatten().tolist()[:2]} / loss {float(loss)} != alpha*inner+(1-alpha)*ema = {float(exp):.6f} / {alpha * lb}", inp)
        chk(stub.epochs == list(range(n + 2)), "C20.warmup.inner-epoch-callback-forwarded", f"inner baseline saw epochs {stub.epochs}", {"n_epochs": n})


SECTIONS = [("C12", "ops", sec_ops), ("C15", "aug", sec_aug), ("C15", "eval", sec_eval), ("C12", "start", sec_start), ("C12", "best", sec_best),
            ("C16", "reinforce", sec_reinforce), ("C16", "shared", sec_shared), ("C16", "ppo", sec_ppo), ("C20", "scaler", sec_scaler), ("C20", "baselines", sec_baselines)]


def main():
    global REP
    torch.set_num_threads(2)
    torch.manual_seed(A.seed)
    t = THOROUGH
    REP = _lib.Report(
        bound=(f"tier={A.tier}, VERIF_SEED={A.seed}, float32 CPU, policies: attention model embed 16 / 1 layer / 2 heads. "
               f"C15 aug: dihedral8 + symmetric A in {'{1,2,3,4,8,16}' if t else '{2,3,8}'} x options {{default, first_aug_identity=False, normalize=True}} x B in {{1,2,3}} x N in {{2,5,8}} x {3 if t else 1} coordinate draws (uniform, corners); "
               f"C15 eval: envs {'tsp,cvrp,op' if t else 'tsp,cvrp'} num_loc {'{6,9}' if t else '6'}, dataset of 5, 7 methods (samples=4, num_augment=3|8, num_starts=num_loc), dataloader batch sizes {'{1,2,5,8}' if t else '{2,5}'}, {4 if t else 1} policy/data seeds; auto batch size for num_loc in {{6,12}} x 5 methods; "
               f"C12 ops: B in 1..4 x {13 if t else 9} replication shapes (k,(a,s),(r,a,s)) x tensor/TensorDict/nested; gather_by_index 16 shapes; start nodes: 7 envs x B in {{1,3,4}} x k in {{1,2,3,ns/2,ns}} x {4 if t else 2} seeds (OP with max_length 1.2); "
               f"best-of-k: tsp,cvrp x B in {{1,3}} x k in {{2,5}} x 3 decode types; POMO/SymNCO val 6 configs x 2 envs x B in {{1,3}}; "
               f"C16: REINFORCE 11 baseline/scale configs x B in {'{1,2,5,8}' if t else '{2,5}'} x 3 successive steps; POMO train tsp,cvrp x B in {{1,3}} x S in {{N,3}}; SymNCO 5 (A,S) configs x B in {{1,3}}; PPO 6 configs x 2 epochs of mini-batches with real SGD steps; "
               f"C20: RewardScaler 4 modes x 5 magnitude/offset pairs x {6 if t else 2} random batch-size sequences (2-6 batches of 1-9) + 60 constant batches; EMA 4 betas x 5 steps; warm-up n_epochs in {{1,2,4,5}} x epochs -1..n+1."),
        rule="a case is one (clause family, env/config, batch size, replication factor, seed/step) tuple; all random draws derive from VERIF_SEED",
        max_violations=40)
    cur = ["start"]

    def out_of_time():  # a library call that does not return must not take the budget of the whole check
        REP.error(f"time budget of {budget:.0f}s exceeded in section {cur[0]}; remaining sections not run")
        REP.finish()
        sys.stdout.flush()
        os._exit(0)

    budget = A.budget or (3000.0 if THOROUGH else 600.0)   # a guard against hangs, far above the normal run time (5-60 s): wall-clock, so it must not bite on a loaded machine
    timer = threading.Timer(budget, out_of_time)
    timer.daemon = True
    timer.start()
    for prop, name, fn in SECTIONS:
        if (A.prop and A.prop != prop) or (A.only and A.only not in name):
            continue
        cur[0] = f"{prop}.{name}"
        REP.guard(fn, cur[0])
    timer.cancel()
    return REP.finish()


if __name__ == "__main__":
    sys.exit(main())
