#!/usr/bin/env python
"""Bounded stand-in for C09: improvement environments keep tours valid and best-so-far bookkeeping exact.

Functions under test (real code, imported from TVC_REPO): TSPkoptEnv / PDPRuinRepairEnv (_reset, _step, step_to_solution,
_local_operator, get_mask, _random_action), ImprovementEnvBase (get_costs, _get_real_solution, _get_linked_list_solution),
TSPGenerator/PDPGenerator._get_initial_solutions, and DACTPolicy / NeuOptPolicy / N2SPolicy.forward with random weights.

Clauses (name = "C09.<env>.<source>.<clause>", env in {tsp2opt, tspkopt<K>, pdprr}, source in {reset, mask, enum, sampler,
policy-<name>, jump}) and their oracles (all independent of the library; tours are walked from node 0 and handled as visiting
sequences, lengths are summed in float64 over consecutive sequence positions):
  tour-valid      rec_current is in range, a permutation and one cycle through all nodes; PDP: position(pickup i) < position(delivery i)
  cost-current    cost_current == float64 length of the walked current tour (tol 1e-5*(1+N/5))
  cost-bsf-min    cost_bsf == min over the lengths of all tours seen so far (harness running min, float64)
  cost-bsf-monotone   cost_bsf never increases (exact)
  reward-eq-decrease  reward == previous cost_bsf - new cost_bsf (exact float32), hence >= 0
  reward-sum      sum of rewards == initial cost - cost_bsf
  rec-best        rec_best == new tour if reward > 0 else == snapshot of previous rec_best (behavioural non-aliasing), it is a
                  valid tour (best-valid) whose float64 length == cost_bsf (best-len); rec-best-aliased: storage differs from rec_current
  move-semantics  resulting tour == the move applied by a sequence-level oracle (2-opt: reverse path first..second; k-opt: sequential
                  segment reversals between the anchors; ruin-repair: remove pair, insert delivery after `second`, pickup after `first`)
  mask-feasible-set   env move mask == set of feasible moves from the definition (2-opt: first != second; ruin-repair: both positions
                  outside the removed pair and position(first) <= position(second))
  step-counter    td["i"] advances by 1 per move and is unchanged by step_to_solution
  <stage>.raises / <stage>.batch1-raises-<Exc>   the library raises on a valid input (stage in {reset, step, jump, sampler, policy-*});
                  failures that only occur at batch size 1 carry their own clause name (see KNOWN)
  C09.base.real-solution / C09.base.linked-list   sequence <-> linked-list conversions agree with the walked tour
Sources of moves: `mask` = every move admitted by env.get_mask; `enum` (k-opt, whose env has no mask) = every action in the NeuOpt
action format enumerated from the definition (anchors a_0..a_m-1 with increasing tour positions p_1 in [2,N-2], p_j+1 in [p_j+2,N-1],
m <= K, early close by choosing next(a_m-1)), cross-checked against the support of env._random_action (mismatch = harness error);
`sampler` = env._random_action; `policy-*` = bundled policies; `jump` = step_to_solution(td, rec_best). Initial tours: every tour
(exhaustive part, injected through the generator's initial-solution hook) or the generators' own random/greedy initial solutions.
A run stops at the first invalid tour. N2S is only driven with >= 3 pairs (its decoder reads the last 3 action_record rows).

Bound (exact numbers are printed in Report.bound). quick: exhaustive all tours x all admitted moves for 2-opt N=3..6 (depth 2 for N<=5),
k-opt K in {3,4} N=4..6 (depth 2 for N=4), ruin-repair 1..3 pairs (depth 3/2/1), each frontier continued by sampler steps and a jump;
2 instances (uniform + lattice with ties/duplicate points); sampler runs num_loc in {10,20,50} x 30 steps x batch 32; policy runs num_loc
in {6,10,20} x 10 steps x batch 8; batch-size-1 runs of every env/policy. thorough: 2-opt N<=7 (depth 3 for N=5, 2 for N=6), k-opt K in
{3,4,5} N<=6 (depth 2 for N<=5), ruin-repair <=3 pairs depth >= 2, 4 instances, num_loc up to 100 x 120 steps x batch 64, 4 policy configs.
"""
import copy
import itertools
import os
import sys
import zlib

sys.path.insert(0, os.path.dirname(os.path.abspath(__file__)))
import _lib  # noqa: E402

_lib.setup_path()
import torch  # noqa: E402
from tensordict import TensorDict  # noqa: E402

from rl4co.envs.common.base import ImprovementEnvBase  # noqa: E402
from rl4co.envs.routing.pdp.env import PDPRuinRepairEnv  # noqa: E402
from rl4co.envs.routing.tsp.env import TSPkoptEnv  # noqa: E402

KNOWN = {  # confirmed defects of the unchanged library: all are exceptions at batch size 1 (valid input), see final report
    "C09.tspkopt3.sampler.batch1-raises-IndexError": "TSPkoptEnv(k_max=3)._random_action(td) with batch size 1: 0-dim .squeeze() masks index out of bounds",
    "C09.tspkopt4.sampler.batch1-raises-IndexError": "TSPkoptEnv(k_max=4)._random_action(td) with batch size 1 (same .squeeze() code)",
    "C09.tspkopt3.policy-neuopt.batch1-raises-IndexError": "NeuOptPolicy.forward(td, env k_max=3) with batch size 1 (same .squeeze() code as the sampler)",
    "C09.tspkopt4.policy-neuopt.batch1-raises-IndexError": "NeuOptPolicy.forward(td, env k_max=4) with batch size 1",
    "C09.pdprr.step.batch1-raises-RuntimeError": "PDPRuinRepairEnv.step with batch size 1 and >= 3 action_record rows: overlapping in-place shift action_record[:, :-1] = action_record[:, 1:]",
    "C09.pdprr.policy-n2s.batch1-raises-IndexError": "N2SPolicy.forward with batch size 1: removal decoder .squeeze() drops the batch dim, mask indexing fails",
}
ARGS, REP, NREP = None, None, {}


def flag(name, what, inp):
    NREP[name], NREP["#flags"] = NREP.get(name, 0) + 1, NREP.get("#flags", 0) + 1
    if name in KNOWN:
        REP.known(name, what, inp)
    elif NREP[name] <= 2:
        REP.violation(name, what, inp)


# ---------------------------------------------------------------- oracles (sequence level, independent of the library)
def walk(rec):
    """Follow the successor list from node 0: returns (seq [B,N], ok [B]) with ok = in range & permutation & single N-cycle."""
    B, N = rec.shape
    inr = ((rec >= 0) & (rec < N)).all(1)
    r, ar, cur, cols = rec.clamp(0, N - 1), torch.arange(B), torch.zeros(B, dtype=torch.long), []
    for _ in range(N):
        cols.append(cur)
        cur = r[ar, cur]
    seq = torch.stack(cols, 1)
    return seq, inr & (cur == 0) & (seq.sort(1)[0] == torch.arange(N)).all(1)


def length(xy, seq):
    p = xy.gather(1, seq[:, :, None].expand(-1, -1, 2))
    return (p - p.roll(-1, 1)).pow(2).sum(-1).sqrt().sum(1)


def precedence(seq, ok):
    n = (seq.shape[1] - 1) // 2
    pos = seq.argsort(1)
    return ok & (pos[:, 1 : n + 1] < pos[:, n + 1 :]).all(1)


def rec_of(cyc):
    assert sorted(cyc) == list(range(len(cyc))), "oracle result is not a permutation (inadmissible move)"
    r = [0] * len(cyc)
    for i, v in enumerate(cyc):
        r[v] = cyc[(i + 1) % len(cyc)]
    return r


def rot(seq, a):
    s = seq.index(a)
    return seq[s:] + seq[:s]


def two_opt(seq, a, b):
    t = rot(seq, a)
    p = t.index(b)
    return t[: p + 1][::-1] + t[p + 1 :]


def ruin_repair(seq, pair, first, second):
    n = (len(seq) - 1) // 2
    p, d = pair + 1, pair + 1 + n
    t = [v for v in seq if v not in (p, d)]
    t.insert(t.index(second) + 1, d)
    t.insert(t.index(first) + 1, p)
    return t


def kopt_encode(t, ps, K):
    """t: tour rotated to start at anchor a_0; ps: anchor positions (ps[0]=0). Returns (action row, resulting cycle)."""
    N, m = len(t), len(ps)
    a, nx = [t[p] for p in ps], [t[(p + 1) % N] for p in ps]
    idx = a + ([nx[-1]] if m < K else [])
    idx += [a[0]] * (K - len(idx))
    if m == 1:
        edges = [(a[0], nx[0])]
    else:
        edges = [(a[0], a[1])] + [(nx[j - 1], a[j + 1]) for j in range(1, m - 1)] + [(nx[m - 2], nx[m - 1])]
    edges += [edges[-1]] * (K - m)
    new = [t[0]]
    for j in range(1, m):
        new += t[ps[j - 1] + 1 : ps[j] + 1][::-1]
    return idx + [e[0] for e in edges] + [e[1] for e in edges], new + t[ps[-1] + 1 :]


def kopt_admitted(N, K):
    """All admitted anchor-position tuples: p_1 in [2, N-2], p_{j+1} in [p_j+2, N-1], 1 <= #anchors <= K."""
    out, stack = [], [(0,)]
    while stack:
        ps = stack.pop()
        out.append(ps)
        if len(ps) < K:
            stack += [ps + (p,) for p in range(ps[-1] + 2, N - 1 if len(ps) == 1 else N)]
    return out


def kopt_parse(seq, act, K):
    """Anchor positions of an emitted action (None if not of the admitted form)."""
    t, nxt = rot(seq, act[0]), rec_of(seq)
    a = [act[0]]
    for j in range(1, K):
        if act[j] == nxt[a[-1]]:
            break
        a.append(act[j])
    ps = tuple(t.index(v) for v in a)
    N = len(seq)
    good = all(ps[j + 1] >= ps[j] + 2 for j in range(len(ps) - 1)) and (len(ps) == 1 or ps[1] <= N - 2)
    return ps if good and kopt_encode(t, ps, K)[0] == list(act) else None


def all_tours(kind, N):
    n = (N - 1) // 2
    seqs = [(0,) + p for p in itertools.permutations(range(1, N))]
    if kind == "pdprr":
        seqs = [s for s in seqs if all(s.index(i) < s.index(i + n) for i in range(1, n + 1))]
    return torch.tensor([rec_of(s) for s in seqs])


# ---------------------------------------------------------------- harness state
class Run:
    """A batch of improvement-MDP trajectories on the real env plus the harness-side bookkeeping of the oracle."""

    def __init__(self, env, label, td, inst, counted=True):
        self.env, self.label, self.td, self.inst, self.counted = env, label, td, inst, counted
        self.pdp = isinstance(env, PDPRuinRepairEnv)
        self.K = None if self.pdp or env.two_opt_mode else env.k_max
        self.N = td["rec_current"].shape[1]
        self.tol = 1e-5 * (1 + self.N / 5)
        self.xy, self.init, self.hist = td["locs"].double(), td["rec_current"].clone(), []
        seq, ok = self.valid(self.init)
        self.fail(~ok, "reset", "tour-valid", lambda i: f"initial tour invalid: rec={self.init[i].tolist()}")
        self.alive = bool(ok.all())  # a run never continues from an invalid tour
        L = length(self.xy, seq)
        self.omin, self.c0, self.rsum = L.clone(), L.clone(), torch.zeros_like(L)
        for k in ("cost_current", "cost_bsf"):
            self.fail(ok & ((td[k].double() - L).abs() > self.tol), "reset", k.replace("_", "-"),
                      lambda i: f"{k}={td[k][i].item()} but tour length={L[i].item()}")
        self.fail((td["rec_best"] != self.init).any(1), "reset", "rec-best", lambda i: "rec_best != initial tour")
        self.alias("reset")
        self.count()

    def valid(self, rec):
        seq, ok = walk(rec)
        return seq, (precedence(seq, ok) if self.pdp else ok)

    def alias(self, src):
        if self.td["rec_best"].untyped_storage().data_ptr() == self.td["rec_current"].untyped_storage().data_ptr():
            flag(f"C09.{self.label}.{src}.rec-best-aliased", "rec_best shares storage with rec_current", self.repro(0))

    def repro(self, i):
        return {"env": self.label, "instance": self.inst, "coords": [[round(v, 6) for v in p] for p in self.xy[i].tolist()],
                "init_tour_from_0": walk(self.init[i : i + 1])[0][0].tolist(), "init_rec": self.init[i].tolist(),
                "actions": [h[i].tolist() for h in self.hist], "row": int(i), "batch": int(self.init.shape[0])}

    def fail(self, bad, src, clause, what):
        if bool(bad.any()):
            i = int(bad.nonzero()[0, 0])
            flag(f"C09.{self.label}.{src}.{clause}", f"{what(i)} [{int(bad.sum())} of {bad.numel()} rows]", self.repro(i))

    def raised(self, stage, e):
        """The library raised on a valid input; batch-size-1 failures get their own clause names."""
        kind = f"batch1-raises-{type(e).__name__}" if self.init.shape[0] == 1 else "raises"
        flag(f"C09.{self.label}.{stage}.{kind}", f"{stage}: {type(e).__name__}: {str(e)[:200]}", self.repro(0))

    def count(self):
        if not self.counted:
            return
        h = torch.full((self.init.shape[0],), zlib.crc32(f"{self.label}|{self.inst}".encode()), dtype=torch.long)
        for col in torch.cat([self.init] + self.hist, 1).unbind(1):
            h = (h * 1000003 + col + 7) % 2305843009213693951
        for k in h.tolist():
            REP.case(k)

    def select(self, idx):
        r = copy.copy(self)
        r.td = self.td[idx]
        for k in ("xy", "init", "omin", "c0", "rsum"):
            setattr(r, k, getattr(self, k)[idx])
        r.hist = [h[idx] for h in self.hist]
        return r

    def seqs(self):
        return walk(self.td["rec_current"])[0].tolist()

    def step(self, src, action=None, expect=None, jump=False):
        """One real env transition (action given, already set in td by a policy, or a jump to rec_best) + all clause checks."""
        td = self.td
        if not self.alive:
            return False
        if action is not None:
            td["action"] = action
        prev = {k: td[k].clone() for k in ("rec_current", "rec_best", "cost_bsf", "i")}
        self.hist.append(torch.full_like(prev["rec_best"][:, :1], -1) if jump else td["action"].clone())
        try:
            with torch.no_grad():
                self.td = td = self.env.step_to_solution(td, td["rec_best"]) if jump else self.env.step(td)["next"]
        except Exception as e:  # the library raised on an admitted move
            self.raised("jump" if jump else "step", e)
            self.alive = False
            return False
        rc, rb, bsf, rew = td["rec_current"], td["rec_best"], td["cost_bsf"], td["reward"]
        seq, ok = self.valid(rc)
        self.fail(~ok, src, "tour-valid", lambda i: f"rec_current={rc[i].tolist()} is not a valid tour (prev {prev['rec_current'][i].tolist()})")
        L = torch.where(ok, length(self.xy, seq), self.omin)
        self.fail(ok & ((td["cost_current"].double() - L).abs() > self.tol), src, "cost-current",
                  lambda i: f"cost_current={td['cost_current'][i].item()} but tour length={L[i].item()}")
        self.omin = torch.minimum(self.omin, L)
        self.fail((bsf.double() - self.omin).abs() > self.tol, src, "cost-bsf-min",
                  lambda i: f"cost_bsf={bsf[i].item()} but min length over tours seen={self.omin[i].item()}")
        self.fail(bsf > prev["cost_bsf"], src, "cost-bsf-monotone", lambda i: f"cost_bsf rose {prev['cost_bsf'][i].item()} -> {bsf[i].item()}")
        self.fail(rew != prev["cost_bsf"] - bsf, src, "reward-eq-decrease",
                  lambda i: f"reward={rew[i].item()} but cost_bsf {prev['cost_bsf'][i].item()} -> {bsf[i].item()}")
        self.rsum = self.rsum + rew.double()
        self.fail((self.rsum - (self.c0 - bsf.double())).abs() > self.tol * (len(self.hist) + 1), src, "reward-sum",
                  lambda i: f"sum(rewards)={self.rsum[i].item()} but initial-best={self.c0[i].item() - bsf[i].item()}")
        want = torch.where((rew > 0)[:, None], rc, prev["rec_best"])
        self.fail((rb != want).any(1), src, "rec-best",
                  lambda i: f"rec_best={rb[i].tolist()} expected {want[i].tolist()} (reward {rew[i].item()})")
        seqb, okb = self.valid(rb)
        self.fail(~okb, src, "best-valid", lambda i: f"rec_best={rb[i].tolist()} is not a valid tour")
        Lb = length(self.xy, seqb)
        self.fail(okb & ((Lb - bsf.double()).abs() > self.tol), src, "best-len", lambda i: f"length(rec_best)={Lb[i].item()} cost_bsf={bsf[i].item()}")
        self.alias(src)
        self.fail(td["i"] != prev["i"] + (0 if jump else 1), src, "step-counter", lambda i: f"i {prev['i'][i].tolist()} -> {td['i'][i].tolist()}")
        if jump:
            expect = prev["rec_best"]
        if expect is not None:
            self.fail((rc != expect).any(1), src, "move-semantics",
                      lambda i: f"rec_current={rc[i].tolist()} expected {expect[i].tolist()} from {prev['rec_current'][i].tolist()}")
        self.count()
        self.alive = bool(ok.all())
        return self.alive

    # ---- move sources
    def admitted(self):
        """All admitted moves of every row: (row index, actions, expected rec). Env mask for 2-opt / ruin-repair, enumeration for k-opt."""
        seqs, td, N, B = self.seqs(), self.td, self.N, self.td.batch_size[0]
        if self.K is not None:
            adm, rows, acts, exp = kopt_admitted(N, self.K), [], [], []
            for b, s in enumerate(seqs):
                for a0 in range(N):
                    t = rot(s, a0)
                    for ps in adm:
                        a, new = kopt_encode(t, ps, self.K)
                        rows.append(b), acts.append(a), exp.append(rec_of(new))
            return torch.tensor(rows), torch.tensor(acts), torch.tensor(exp)
        if self.pdp:
            n, parts = (N - 1) // 2, []
            for pr in range(n):
                m = self.env.get_mask(torch.full((B, 1), pr + 1), td)
                pos = walk(td["rec_current"])[0].argsort(1)
                out = torch.zeros(B, N, dtype=torch.bool)
                out[:, pr + 1] = out[:, pr + 1 + n] = True
                feas = ~(out[:, :, None] | out[:, None, :]) & (pos[:, :, None] <= pos[:, None, :])
                self.fail((m != feas).flatten(1).any(1), "mask", "mask-feasible-set",
                          lambda i: f"pair {pr}: env mask {m[i].int().tolist()} != feasible set {feas[i].int().tolist()}")
                nz = m.nonzero()
                parts.append(torch.cat([nz[:, :1], torch.full_like(nz[:, :1], pr), nz[:, 1:]], 1))
            nz = torch.cat(parts)
            fn = ruin_repair
        else:
            m = self.env.get_mask(td)
            self.fail((m != ~torch.eye(N, dtype=torch.bool)).flatten(1).any(1), "mask", "mask-feasible-set",
                      lambda i: f"env mask {m[i].int().tolist()} != all first!=second")
            nz, fn = m.nonzero(), two_opt
        exp = []
        for r in nz.tolist():
            try:
                exp.append(rec_of(fn(seqs[r[0]], *r[1:])))
            except Exception:
                exp.append([-1] * N)  # mask admitted a move the definition cannot apply
        return nz[:, 0], nz[:, 1:], torch.tensor(exp).view(-1, N)

    def expected(self, act):
        """Oracle result for emitted actions (sampler / policy); rows of -1 where the action is not of the admitted form."""
        out, outside = [], []
        for b, (s, a) in enumerate(zip(self.seqs(), act.tolist())):
            try:
                if self.K is not None:
                    ps = kopt_parse(s, a, self.K)
                    new = kopt_encode(rot(s, a[0]), ps, self.K)[1]
                elif self.pdp:
                    pos = {v: i for i, v in enumerate(s)}
                    assert pos[a[1]] <= pos[a[2]] and 0 <= a[0] < (self.N - 1) // 2
                    new = ruin_repair(s, *a)
                else:
                    assert a[0] != a[1]
                    new = two_opt(s, *a)
                out.append(rec_of(new))
            except Exception:
                out.append([-1] * self.N), outside.append(b)
        return torch.tensor(out), outside

    def emitted_step(self, src):
        """Step with the action already placed in td['action'] by the sampler or a policy."""
        exp, outside = self.expected(self.td["action"])
        act, before = self.td["action"].clone(), NREP.get("#flags", 0)
        done = self.step(src, expect=exp)
        if done and outside and before == NREP.get("#flags", 0) and len(REP.errors) < 5:
            REP.error(f"{self.label}.{src}: emitted action {act[outside[0]].tolist()} is outside the enumerated admitted set "
                      f"but all clauses hold (enumeration not exhaustive): {self.repro(outside[0])}")
        return done

    def sample(self, steps, src="sampler"):
        for _ in range(steps):
            try:
                self.env._random_action(self.td)
            except Exception as e:
                self.raised(src, e)
                return False
            if not self.emitted_step(src):
                return False
        return True


# ---------------------------------------------------------------- drivers
def make_env(kind, N, init="random", train=True):
    """kind in {tsp2opt, tspkopt<K>, pdprr}; N = number of nodes (PDP: depot + 2*pairs). Constructing an env seeds the global torch RNG."""
    NREP["#env"] = NREP.get("#env", 0) + 1
    seed, gp = ARGS.seed * 100003 + NREP["#env"], dict(num_loc=N - (kind == "pdprr"), init_sol_type=init)
    if kind == "pdprr":
        env = PDPRuinRepairEnv(generator_params=gp, seed=seed)
    else:
        env = TSPkoptEnv(generator_params=gp, k_max=2 if kind == "tsp2opt" else int(kind[7:]), seed=seed)
    return env.train(train), kind


def real_reset(env, label, inst, counted=True, **kw):
    """env.reset on a valid input; an exception of the library is a violation of the reset clause."""
    try:
        return Run(env, label, env.reset(**kw), inst, counted)
    except Exception as e:
        flag(f"C09.{label}.reset.raises", f"env.reset: {type(e).__name__}: {str(e)[:200]}",
             {"env": label, "instance": inst, "init_sol_type": env.generator.init_sol_type, "reset_args": {k: _lib.tojson(v) for k, v in kw.items()}})
        return None


def instance(name, N, g):
    if name.startswith("lattice"):  # ties, collinear and duplicate points (exact float arithmetic)
        return (torch.randint(0, 3, (N, 2), generator=g).double() / 4).float()
    return torch.rand(N, 2, generator=g, dtype=torch.float64).float()


def reset_with(env, label, xy, recs, inst, counted=True):
    """Real env.reset on instance xy with the given initial tours (the generator's initial-solution hook is overridden on the instance)."""
    B = recs.shape[0]
    xyb = xy[None].expand(B, -1, -1).clone()
    data = {"depot": xyb[:, 0], "locs": xyb[:, 1:]} if label == "pdprr" else {"locs": xyb}
    env.generator._get_initial_solutions = lambda coords: recs.clone()
    try:
        return real_reset(env, label, inst, counted, td=TensorDict(data, batch_size=[B]))
    finally:
        del env.generator._get_initial_solutions


def exhaustive(kind, N, depth, tail, inst, g, cap=400000):
    env, label = make_env(kind, N)
    recs = all_tours(label, N)
    seq0 = walk(recs)[0]
    for got, name, want in ((ImprovementEnvBase._get_real_solution(recs), "real-solution", seq0),
                            (ImprovementEnvBase._get_linked_list_solution(seq0), "linked-list", recs)):
        if not torch.equal(got, want):
            i = int((got != want).any(1).nonzero()[0, 0])
            flag(f"C09.base.{name}", f"got {got[i].tolist()} want {want[i].tolist()}", {"rec": recs[i].tolist(), "seq": seq0[i].tolist()})
    if len(recs) == 1:  # keep batch >= 2 here; batch size 1 has its own section (batch1)
        recs = recs.repeat(2, 1)
    run = reset_with(env, label, instance(inst, N, g), recs, inst)
    for d in range(depth if run else 0):
        idx, acts, exp = run.admitted()
        if len(idx) > cap:
            return REP.error(f"{label} N={N} depth {d + 1}: {len(idx)} rows exceed cap")
        run = run.select(idx)
        if not run.step("enum" if run.K else "mask", action=acts, expect=exp):
            return
    if run.td.batch_size[0] > 20000:  # the sampler tail continues from a random subset of a very large frontier
        run = run.select(torch.randperm(run.td.batch_size[0], generator=g)[:20000])
    _ = run and run.sample(tail) and run.step("jump", jump=True) and run.sample(1)


def sampler_support(K, N, draws, g):
    """Harness self-check: support of env._random_action == enumerated admitted k-opt set (else the `enum` bound is not what it claims)."""
    env, label = make_env(f"tspkopt{K}", N)
    recs = all_tours(label, N)
    run = reset_with(env, label, instance("uniform", N, g), recs.repeat_interleave(draws, 0), "support", counted=False)
    got = env._random_action(run.td).view(len(recs), draws, -1).tolist()
    for s, rows in zip(walk(recs)[0].tolist(), got):
        want = {tuple(kopt_encode(rot(s, a0), ps, K)[0]) for a0 in range(N) for ps in kopt_admitted(N, K)}
        have = {tuple(r) for r in rows}
        if want != have:
            return REP.error(f"k-opt K={K} N={N} tour {s}: sampler-only actions {sorted(have - want)[:3]}, never sampled {sorted(want - have)[:3]}")


def random_run(kind, N, B, T, init, train, g):
    env, label = make_env(kind, N, init, train)
    run = real_reset(env, label, f"generator-{init}/{'train' if train else 'eval'}-mode", batch_size=[B])
    _ = run and run.sample(T // 2) and run.step("jump", jump=True) and run.sample(T - T // 2)


def policy_run(name, kind, N, B, T, init, train, phase, decode, wseed):
    from rl4co.models.zoo.dact.policy import DACTPolicy
    from rl4co.models.zoo.n2s.policy import N2SPolicy
    from rl4co.models.zoo.neuopt.policy import NeuOptPolicy

    env, label = make_env(kind, N, init, train)
    torch.manual_seed(ARGS.seed * 1000 + wseed)
    pol = {"dact": DACTPolicy, "n2s": N2SPolicy, "neuopt": NeuOptPolicy}[name](
        embed_dim=32, num_encoder_layers=2, num_heads=2, feedforward_hidden=32)
    for p in pol.parameters():  # spread the random weights so that greedy/sampled choices vary
        p.data.mul_(3.0)
    run = real_reset(env, label, f"generator-{init}/{'train' if train else 'eval'}-mode/w{wseed}/{phase}/{decode}", batch_size=[B])
    for _ in range(T if run and run.alive else 0):
        try:
            with torch.no_grad():
                pol(run.td, env, phase=phase, decode_type=decode)
        except Exception as e:
            return run.raised(f"policy-{name}", e)
        if not run.emitted_step(f"policy-{name}"):
            return


def main():
    global ARGS, REP
    ARGS = _lib.args()
    torch.set_num_threads(2)
    torch.manual_seed(ARGS.seed)
    g = torch.Generator().manual_seed(ARGS.seed)
    th = ARGS.tier == "thorough"
    insts = ["uniform0", "lattice0"] + (["uniform1", "lattice1"] if th else [])
    # exhaustive grid: kind -> {N nodes: depth}; every frontier is continued by `tail` sampler steps, a jump to rec_best and 1 more step
    ex = {"tsp2opt": {3: 2, 4: 2, 5: 3, 6: 2, 7: 1} if th else {3: 2, 4: 2, 5: 2, 6: 1}, "pdprr": {3: 3, 5: 3, 7: 2} if th else {3: 3, 5: 2, 7: 1}}
    for K in (3, 4, 5) if th else (3, 4):
        ex[f"tspkopt{K}"] = {4: 2, 5: 2, 6: 1} if th else {4: 2, 5: 1, 6: 1}
    tail = 3
    support = ((3, 5, 600), (4, 5, 600), (4, 6, 1500))
    sizes, B, T = ((10, 20, 50, 100), 64, 120) if th else ((10, 20, 50), 32, 30)
    kinds = ("tsp2opt", "tspkopt3", "tspkopt4", "pdprr")
    modes = [("random", True), ("greedy", False)]  # (generator init_sol_type, env.training)
    rnd = [(k, S + (k == "pdprr"), B, T, init, train, g) for k in kinds for S in sizes for init, train in modes]
    psizes, PB, PT = ((6, 10, 20, 50), 16, 30) if th else ((6, 10, 20), 8, 10)
    pcfg = [("random", True, "test", "sampling", 0), ("greedy", False, "train", "greedy", 1)]
    pcfg += [("random", False, "train", "sampling", 2), ("greedy", True, "test", "greedy", 3)] if th else []
    pk = (("dact", "tsp2opt"), ("neuopt", "tspkopt3"), ("neuopt", "tspkopt4"), ("n2s", "pdprr"))
    pols = [(p, k, S + (k == "pdprr"), PB, PT, *c) for p, k in pk for S in psizes for c in pcfg]
    # batch size 1 (valid input): sampler and policy, 8 customers / 3-4 pairs, both env modes
    b1 = [(k, 8 + (k == "pdprr"), 1, 4, "random", train, g) for k in kinds for train in (True, False)] + [("pdprr", 5, 1, 4, "random", False, g)]
    b1p = [(p, k, 8 + (k == "pdprr"), 1, 3, "random", True, "test", "sampling", 0) for p, k in pk]
    REP = _lib.Report(
        bound=(f"tier={ARGS.tier} seed={ARGS.seed}. EXHAUSTIVE: all directed tours from node 0 (PDP: all precedence-feasible ones, N=1+2*pairs) x all admitted "
               f"moves (2-opt/ruin-repair: env mask; k-opt: enumerated NeuOpt action format), nested to depth d, each frontier then continued by {tail} "
               f"sampler steps + step_to_solution(rec_best) + 1 sampler step; grid env->{{N:d}} = {ex}; instances {insts} (uniform [0,1]^2; lattice "
               f"{{0,.25,.5}}^2 with ties/duplicates). Enumerated k-opt set cross-checked == support of _random_action for (K,N,draws/tour) in {support}. "
               f"RANDOM: env._random_action runs, envs {kinds}, num_loc in {sizes}, batch {B}, {T} steps with one step_to_solution(rec_best) in the middle, "
               f"(init_sol_type, env.training) in {modes}. POLICY: DACT(2-opt)/NeuOpt(K=3,4)/N2S(PDP), random weights x3, embed 32, 2 layers, num_loc in "
               f"{psizes}, batch {PB}, {PT} steps, (init, env.training, phase, decode_type, weight seed) in {pcfg}. BATCH-1: all envs batch size 1, num_loc 8 "
               f"(+PDP 2 pairs eval mode), 4 sampler steps / 3 policy steps. Cost tolerance 1e-5*(1+N/5); bookkeeping identities exact."),
        rule="one case = one real env transition (or reset) of one batch row; key = hash(env, instance, initial tour, action history)",
        exhaustive=False)
    only = ARGS.only
    for kind, grid in ex.items():
        for N, depth in grid.items():
            for inst in insts:
                if not only or only in ("exhaustive", kind):
                    REP.guard(lambda: exhaustive(kind, N, depth, tail, inst, g), f"exhaustive {kind} N={N} {inst}")
    for cfg in support if not only or only in ("exhaustive", "support") else ():
        REP.guard(lambda: sampler_support(*cfg, g), f"sampler_support {cfg}")
    for sec, fn, cfgs in (("random", random_run, rnd), ("policy", policy_run, pols), ("batch1", random_run, b1), ("batch1", policy_run, b1p)):
        for cfg in cfgs:
            if not only or only in (sec, cfg[0], cfg[1]):
                REP.guard(lambda: fn(*cfg), f"{sec} {fn.__name__} {cfg[:-1]}")
    return REP.finish()


if __name__ == "__main__":
    sys.exit(main())
