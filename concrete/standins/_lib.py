"""Helper for bounded stand-ins (run under /venv/bin/python with PYTHONPATH=<repo under test>).

A stand-in is a *run-time contract check of real rl4co functions over an explicitly bounded input
space*. It is labelled bounded in the evidence and never counted as proved.

Protocol (see README.md): the script prints, as its LAST stdout line, one JSON object:
  {"bound": "<stated bound>", "rule": "<how cases are enumerated, what makes a case distinct>",
   "cases": <int>, "distinct": <int>, "exhaustive": <bool>,
   "violations": [{"name": "<clause id>", "what": "<one line>", "input": {...small, json-able...}}, ...],
   "errors": ["<things that prevented checking, never a violation>"]}
"""
import argparse
import json
import os
import sys
import time
import traceback


def repo_root():
    return os.environ.get("TVC_REPO", "/repo")


def setup_path():
    r = repo_root()
    if r not in sys.path:
        sys.path.insert(0, r)
    import rl4co  # noqa

    got = os.path.realpath(os.path.dirname(os.path.dirname(rl4co.__file__)))
    if got != os.path.realpath(r):
        raise RuntimeError(f"rl4co imported from {got}, expected {r}")


def args():
    ap = argparse.ArgumentParser()
    ap.add_argument("--prop", default="")
    ap.add_argument("--tier", default=os.environ.get("VERIF_TIER", "quick"))
    ap.add_argument("--only", default="")
    ap.add_argument("--budget", type=float, default=None, help="seconds")
    a, _ = ap.parse_known_args()
    a.seed = int(os.environ.get("VERIF_SEED", "0") or 0)
    return a


class Report:
    def __init__(self, bound, rule, exhaustive=False, max_violations=10):
        self.bound, self.rule, self.exhaustive = bound, rule, exhaustive
        self.cases = 0
        self.keys = set()
        self.violations = []
        self.known_list = []
        self.errors = []
        self.max_violations = max_violations
        self.t0 = time.time()

    def case(self, key=None):
        self.cases += 1
        if key is not None:
            self.keys.add(key if isinstance(key, (str, int, tuple)) else repr(key))

    def violation(self, name, what, input=None):
        if len(self.violations) < self.max_violations:
            self.violations.append({"name": name, "what": what, "input": tojson(input)})

    def known(self, name, what, input=None):
        """A confirmed real defect of the unchanged library (clause name listed in the script's KNOWN dict).
        Reported separately; the framework matches it against /verif/known_findings.json."""
        if len(self.known_list) < 50 and not any(k["name"] == name for k in self.known_list):
            self.known_list.append({"name": name, "what": what, "input": tojson(input)})

    def check(self, cond, name, what, input=None):
        if not cond:
            self.violation(name, what, input)
        return bool(cond)

    def error(self, msg):
        self.errors.append(str(msg)[:500])

    def guard(self, fn, label):
        """Run fn(); an unexpected exception is recorded as an error (not a violation)."""
        try:
            return fn()
        except Exception as e:
            self.error(f"{label}: {type(e).__name__}: {e} | {traceback.format_exc(limit=3)[-300:]}")
            return None

    def elapsed(self):
        return time.time() - self.t0

    def finish(self):
        out = {"bound": self.bound, "rule": self.rule, "cases": self.cases,
               "distinct": len(self.keys) if self.keys else self.cases, "exhaustive": self.exhaustive,
               "violations": self.violations, "known": self.known_list, "errors": self.errors, "wall_s": round(self.elapsed(), 1)}
        print(json.dumps(out))
        return 0


def tojson(x, depth=0):
    try:
        import torch

        if torch.is_tensor(x):
            return {"shape": list(x.shape), "dtype": str(x.dtype), "data": x.detach().cpu().tolist() if x.numel() <= 400 else "<large>"}
    except Exception:
        pass
    if hasattr(x, "keys") and hasattr(x, "__getitem__") and not isinstance(x, dict):
        try:
            return {k: tojson(x[k], depth + 1) for k in x.keys()}
        except Exception:
            return repr(x)[:300]
    if isinstance(x, dict):
        return {str(k): tojson(v, depth + 1) for k, v in x.items()}
    if isinstance(x, (list, tuple)):
        return [tojson(v, depth + 1) for v in x][:200]
    if isinstance(x, (int, float, str, bool)) or x is None:
        return x
    return repr(x)[:300]
