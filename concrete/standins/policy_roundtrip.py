"""Bounded stand-in for C11 / C13 / C14: constructive policies, decoding strategies, evaluate round trip.

Real code under test: rl4co/models/common/constructive/base.py (ConstructivePolicy.forward), rl4co/utils/decoding.py
(Greedy, Sampling, Evaluate, BeamSearch, multistart/multisample hooks, process_logits, get_log_likelihood), the decoders'
multi-start paths, and the zoo policies (random weights, eval mode) on tiny instances.

Oracle (never the decoding code itself): `replay` re-runs an action sequence with an OWN loop: encoder -> decoder logits ->
own tanh-clip / mask (env `action_mask`) / temperature / top-k / log-softmax -> log-prob + entropy of the given action ->
env.step. Multi-start / beam rows are replayed as independent flat instances (own row expansion, decoder num_starts=0), so
the (s b) layouts, batchify/unbatchify and beam back-tracking are not trusted.  PolyNet (strategy = sample index) is
replayed through its decoder with num_starts=K; PointerNetwork and MDAM have own replays of their step networks.

Clauses (name = "<Cxx>.<policy.env>.<suffix>"):
 C11 gen.feasible-complete        every returned action is allowed by env.action_mask at its step, all rows done at the end
 C11 gen.ll-equals-step-logp      returned log_likelihood == sum_t oracle logp(a_t); forced multistart first move counts 0
                                  (both store_all_logp paths: return_entropy False/True; per-step when not summed)
 C11 gen.greedy-is-argmax         greedy picks the oracle argmax (unless top-2 gap < 1e-4)
 C11 gen.entropy                  returned entropy == sum_t oracle step entropy
 C11 eval.steps / eval.first-move-forced / eval.reward / eval.entropy
                                  policy(td, env, actions=returned) reproduces per-step logp, reward, entropy
 C11 get_log_likelihood.mask      steps flagged irrelevant (mask False) contribute exactly 0 (unit + td["mask"] on TSP)
 C13 beam.feasible-complete / beam.ll-equals-sequence-logp / beam.distinct / beam.topk-matches-oracle (own beam search,
     b-major layout, history re-indexed every step, skipped on score ties < 1e-4) / beam.select-best-is-max /
     beam.eval.steps / beam.eval.first-move-forced
 C14 greedy.actions / greedy.reward / greedy.ll / greedy.raises   instance decoded solo (batch 1), at another position
     (reversed batch), in a sub-sampled batch and in a batch with duplicates == decoded in the full batch
     (actions exact up to the solo episode length, a differing action only accepted if the oracle top-2 gap < 1e-4)

Bound: see `BOUND` (built from the tier tables below).
"""
import os
import sys
import warnings
import logging

sys.path.insert(0, os.path.dirname(os.path.abspath(__file__)))
import _lib

_lib.setup_path()
warnings.filterwarnings("ignore")
import torch
from torch import nn

logging.disable(logging.WARNING)
from rl4co.envs import get_env  # noqa: E402
from rl4co.models.zoo import (  # noqa: E402
    AttentionModelPolicy, HeterogeneousAttentionModelPolicy, MatNetPolicy, MDAMPolicy, PointerNetworkPolicy, SymNCOPolicy,
)
from rl4co.models.zoo.l2d import L2DAttnPolicy, L2DPolicy, L2DPolicy4PPO  # noqa: E402
from rl4co.models.zoo.polynet.policy import PolyNetPolicy  # noqa: E402
from rl4co.utils.decoding import get_log_likelihood  # noqa: E402

KNOWN = {
    "C11.multistart.eval.first-move-forced": "any multistart_* output re-evaluated with policy(batchify(td, S), env, actions=a): step 0 gets the policy's log-prob instead of the forced 0",
    "C11.am.mtsp.gen.raises.multistart": "AttentionModelPolicy(mtsp), multistart_*: MTSPContext._distance_from_depot gathers on dim 1 of the [B,S,N,2] multi-start view -> IndexError",
    "C14.am.mtsp.multistart_greedy.raises": "same MTSPContext multi-start gather failure, reached from the per-instance check",
    "C14.am.mtsp.greedy.raises-batch-size-1": "AttentionModelPolicy(mtsp) on a batch of ONE instance: MTSPContext._cur_node_embedding .squeeze() drops the batch dim -> cat error",
    "C14.am.mtsp.greedy.reward": "MTSPEnv (minmax): padding depot steps after an instance is done change its reward, so the reward depends on the batch's longest episode",
    "C14.am.mdcpdp.greedy.reward": "MDCPDPEnv batched step adds row 0's leg length to every row: reward of an instance differs solo vs in a batch",
    "C11.mdam.tsp.gen.ll-unnormalised-logits": "MDAMPolicy: log_likelihood is the sum of masked/clipped LOGITS (no log-softmax), e.g. positive values",
    "C11.mdam.cvrp.gen.ll-unnormalised-logits": "MDAMPolicy(cvrp): same, log_likelihood is a sum of unnormalised logits",
    "C14.mdam.cvrp.greedy.ll": "MDAMPolicy(cvrp): padding steps after an instance is done add their (unnormalised) depot logit, so log_likelihood depends on the batch's longest episode",
    "C14.am.sdvrp.batch-size-1.checker-rejects-depotless-tour": "SDVRPEnv.check_solution_validity needs a depot visit to zero its -capacity entry: a complete single-trip tour 1,2,3,4 decoded alone raises 'All demand must be satisfied' (in a batch, padding depot steps hide it); the sdvrp pair therefore runs with check_solution=False + own feasibility oracle",
    "C14.matnet.atsp.random-onehot-init.greedy.actions": "MatNetPolicy default init draws a fresh random one-hot column embedding per call/batch row even in eval mode",
    "C14.matnet.atsp.random-onehot-init.greedy.ll": "same (MatNet RandomOneHot init embedding)",
    "C14.matnet.atsp.random-onehot-init.greedy.reward": "same (MatNet RandomOneHot init embedding)",
    "C14.matnet.ffsp.policy-raises": "MatNetPolicy(env_name='ffsp') cannot be constructed: MatNetFFSPDecoder passes out_bias to AttentionModelDecoder",
    "C14.l2dattn.jssp.policy-raises": "L2DAttnPolicy forward: decoder receives the (cache,) tuple -> AttributeError",
    "C13.beam.eval.first-move-forced": "any beam_search output re-evaluated with policy(batchify(td, W), env, actions=a): forced first move gets the policy's log-prob instead of 0",
}
TOL, TIE = 1e-4, 1e-4
A = _lib.args()
torch.set_num_threads(2)
QUICK = A.tier != "thorough"
SIZES = [5, 7]
SEEDS = [0] if QUICK else [0, 1, 2]
B = 3 if QUICK else 4
SM = dict(embed_dim=16, num_heads=2, num_encoder_layers=1)


class DetOneHot(nn.Module):
    """Deterministic per-instance replacement for MatNet's RandomOneHot init embedding (col j -> e_j)."""

    def __init__(self, d):
        super().__init__()
        self.d = d

    def forward(self, td):
        m = td["cost_matrix"]
        b, r, c = m.shape
        return torch.zeros(b, r, self.d), torch.eye(c, self.d)[None].repeat(b, 1, 1), m


def _matnet(det=True):
    p = MatNetPolicy(env_name="atsp", embed_dim=16, num_heads=2, num_encoder_layers=1)
    if det:
        p.encoder.init_embedding = DetOneHot(16)
    return p


def _genv(name, **gp):
    return lambda n: get_env(name, generator_params=dict({"num_loc": n}, **gp))


def _am(env, cls=AttentionModelPolicy, **kw):
    return lambda: cls(env_name=env, feedforward_hidden=16, **dict(SM, **kw))


# id, policy factory, env factory(n), kind, multistart ("env" = env.select_start_nodes, "own" = own feasible starts, None), beam
ZOO = [
    ("am.tsp", _am("tsp"), _genv("tsp"), "ar", "env", True),
    ("am.cvrp", _am("cvrp"), _genv("cvrp"), "ar", "env", True),
    ("pomo.cvrp", _am("cvrp", use_graph_context=False, normalization="instance"), _genv("cvrp"), "ar", "env", True),
    ("am.sdvrp", _am("sdvrp"), lambda n: get_env("sdvrp", check_solution=False, generator_params=dict(num_loc=n)), "ar", "env", True),
    ("am.cvrptw", _am("cvrptw"), _genv("cvrptw"), "ar", "own", True),
    ("am.op", _am("op"), _genv("op"), "ar", "own", True),
    ("am.pctsp", _am("pctsp"), _genv("pctsp"), "ar", "env", True),
    ("am.spctsp", _am("spctsp"), _genv("spctsp"), "ar", "env", False),
    ("am.pdp", _am("pdp"), lambda n: get_env("pdp", generator_params=dict(num_loc=n + n % 2)), "ar", "env", True),
    ("ham.pdp", _am("pdp", cls=HeterogeneousAttentionModelPolicy), lambda n: get_env("pdp", generator_params=dict(num_loc=n + n % 2)), "ar", "env", False),
    ("am.mtsp", _am("mtsp"), _genv("mtsp", min_num_agents=2, max_num_agents=2), "ar", "own", False),
    ("am.svrp", _am("svrp"), _genv("svrp"), "ar", None, False),
    ("am.smtwtp", _am("smtwtp"), lambda n: get_env("smtwtp", generator_params=dict(num_job=n)), "ar", "own", False),
    ("am.mdcpdp", _am("mdcpdp"), lambda n: get_env("mdcpdp", generator_params=dict(num_loc=n + n % 2, num_depot=3)), "ar", None, False),
    ("symnco.tsp", _am("tsp", cls=SymNCOPolicy), _genv("tsp"), "ar", "env", False),
    ("matnet.atsp", _matnet, _genv("atsp"), "ar", "env", True),
    ("polynet.tsp", lambda: PolyNetPolicy(k=3, env_name="tsp", feedforward_hidden=16, **SM), _genv("tsp"), "poly", None, False),
    ("polynet.cvrp", lambda: PolyNetPolicy(k=3, env_name="cvrp", feedforward_hidden=16, **SM), _genv("cvrp"), "poly", None, False),
    ("l2d.jssp", lambda: L2DPolicy(env_name="jssp", embed_dim=16, num_encoder_layers=1), lambda n: get_env("jssp", generator_params=dict(num_jobs=3, num_machines=2)), "ar", None, False),
    ("l2d.fjsp", lambda: L2DPolicy(env_name="fjsp", embed_dim=16, num_encoder_layers=1), lambda n: get_env("fjsp", generator_params=dict(num_jobs=3, num_machines=2)), "ar", None, False),
    ("l2dppo.jssp", lambda: L2DPolicy4PPO(env_name="jssp", embed_dim=16, num_encoder_layers=1), lambda n: get_env("jssp", generator_params=dict(num_jobs=3, num_machines=2)), "ar", None, False),
    ("ptrnet.tsp", lambda: PointerNetworkPolicy(embed_dim=16, hidden_dim=16), _genv("tsp"), "ptr", None, False),
    ("mdam.tsp", lambda: MDAMPolicy(env_name="tsp", num_paths=2, **SM), _genv("tsp"), "mdam", None, False),
    ("mdam.cvrp", lambda: MDAMPolicy(env_name="cvrp", num_paths=2, **SM), _genv("cvrp"), "mdam", None, False),
]
BOUND = (
    f"tier={A.tier}: {len(ZOO)} policy/env pairs {[z[0] for z in ZOO]} with random weights (embed 16, 1 layer, eval mode); "
    f"instance sizes num_loc in {SIZES} (jssp/fjsp 3 jobs x 2 machines), generator seeds {SEEDS}, batch {B}; C11: decode types "
    f"greedy/sampling/multistart_greedy/multistart_sampling (multisample K=3 for PolyNet), temperature in {{1.0, 0.6}}, top_k in {{0, 3}} "
    f"(sampling), store_all_logp on/off; C13: beam widths {'{2, N}' if QUICK else '2..N'} x select_best on/off on the beam-enabled pairs; "
    f"C14: solo / reversed / sub-sampled / duplicated batches vs the full batch, greedy (+ multistart_greedy, multisample greedy)."
)
rep = _lib.Report(bound=BOUND, rule="case = (clause family, policy.env, size, seed, decode config[, batch composition]); distinct by that key", max_violations=40)


def fail(name, what, inp=None):
    (rep.known if name in KNOWN else rep.violation)(name, what, inp)


def close(a, b, tol=TOL):
    return a.shape == b.shape and bool(torch.allclose(a.float(), b.float(), atol=tol, rtol=1e-6))


def small(td, acts=None, **extra):
    keys = [k for k in ("locs", "cost_matrix", "demand", "prize", "penalty", "time_windows", "durations") if k in td.keys()]
    d = {k: td[k] for k in keys}
    if acts is not None:
        d["actions"] = acts
    d.update(extra)
    return d


# ----------------------------------------------------------------------------------------------- oracle
def step_logp(pol, logits, mask, temp=1.0, top_k=0):
    """Own masked, clipped, temperature-scaled, (top-k filtered) and normalised step distribution."""
    x = logits.detach().clone()
    clip = float(getattr(pol, "tanh_clipping", 0) or 0)
    if clip > 0:
        x = torch.tanh(x) * clip  # in the logits' own precision: saturated logits tie exactly as they do in the library
    x = x.double().masked_fill(~mask, float("-inf")) / temp
    if top_k > 0:
        kth = x.sort(-1, descending=True).values[..., min(top_k, x.size(-1)) - 1, None]
        x = x.masked_fill(x < kth, float("-inf"))
    return x - torch.logsumexp(x, -1, keepdim=True)


def expand(td, s):
    """Own (s b) row expansion: row s*B+b is instance b."""
    n = td.batch_size[0]
    return td[torch.arange(s * n) % n].clone()


class Replay:
    pass


def replay(pol, env, td, actions, forced=False, dec_starts=0, temp=1.0, top_k=0):
    """Own rollout of `actions` [R,T] from reset state(s). dec_starts=0: td has R rows (flat, independent instances);
    dec_starts=K: td has R/K rows and the decoder's own multi-start path is used (PolyNet only)."""
    r = Replay()
    with torch.no_grad():
        td = td.clone()
        hidden, _ = pol.encoder(td)
        if dec_starts:
            td = expand(td, dec_starts)
        td, _, hidden = pol.decoder.pre_decoder_hook(td, env, hidden, dec_starts)
        R, T = actions.shape
        lp, ent, gap, feas, am = torch.zeros(R, T).double(), torch.zeros(R, T).double(), torch.full((R, T), 9.0).double(), torch.ones(R, dtype=torch.bool), torch.zeros(R, T, dtype=torch.long)
        r.done_before_last = False
        for t in range(T):
            if t == T - 1 and bool(td["done"].all()):
                r.done_before_last = True
            a, mask = actions[:, t], td["action_mask"].clone()
            feas &= mask.gather(1, a[:, None]).squeeze(1)
            if not (forced and t == 0):
                logits, _ = pol.decoder(td, hidden, dec_starts)
                l = step_logp(pol, logits, mask, temp, top_k)
                lp[:, t] = l.gather(1, a[:, None]).squeeze(1)
                ent[:, t] = -(l.exp() * l.masked_fill(l.isinf(), 0)).sum(-1)
                am[:, t] = l.argmax(-1)
                if l.size(-1) > 1:
                    top = l.topk(2, -1).values
                    gap[:, t] = top[:, 0] - top[:, 1]
            td.set("action", a)
            td = env.step(td)["next"]
        r.lp, r.ent, r.gap, r.feasible, r.argmax, r.done = lp.float(), ent.float(), gap, feas, am, td["done"].reshape(R).clone()
        r.reward = env.get_reward(td, actions) if bool(r.done.all() and feas.all()) else None
    return r


def ptr_replay(pol, td, actions):
    with torch.no_grad():
        locs = td["locs"]
        n, g, _ = locs.shape
        emb = torch.mm(locs.transpose(0, 1).contiguous().view(-1, 2), pol.embedding).view(g, n, -1)
        z = torch.zeros(1, n, emb.size(-1))
        enc_h, (h, c) = pol.encoder(emb, (z, z))
        hid, x, mask = (h[-1], c[-1]), pol.decoder_in_0[None].repeat(n, 1), torch.ones(n, g, dtype=torch.bool)
        lp = torch.zeros(n, g)
        for t in range(g):
            logits, hid = pol.decoder.calc_logits(x, hid, mask, enc_h, mask_logits=False)
            l = (logits.double().masked_fill(~mask, float("-inf"))).log_softmax(-1)
            a = actions[:, t]
            lp[:, t] = l.gather(1, a[:, None]).squeeze(1).float()
            mask = mask.clone()
            mask[torch.arange(n), a] = False
            x = emb[a, torch.arange(n)]
    return lp


def mdam_replay(pol, env, td, actions):
    """Normalised log-prob (and raw masked logit) of the returned actions under the LAST decoder path (the only path whose
    actions MDAM returns)."""
    with torch.no_grad():
        enc, _, attn, V, h_old = pol.encoder(pol.init_embedding(td))
        p = pol.decoder.num_paths - 1
        fixed = pol.decoder._precompute(enc, path_index=p)
        td = td.clone()
        lp, raw = torch.zeros(actions.shape), torch.zeros(actions.shape)
        for t in range(actions.size(1)):
            logits, _ = pol.decoder._get_logprobs(fixed, td, p)
            x = logits[:, 0].double().masked_fill(~td["action_mask"], float("-inf"))
            raw[:, t] = x.gather(1, actions[:, t, None]).squeeze(1).float()
            lp[:, t] = x.log_softmax(-1).gather(1, actions[:, t, None]).squeeze(1).float()
            td.set("action", actions[:, t])
            td = env.step(td)["next"]
    return lp, raw, td["done"].reshape(-1)


def own_starts(td, env, s):
    """Feasible, as-distinct-as-possible first moves, (s b) order; avoids index 0 when another move is feasible."""
    out = []
    for k in range(s):
        for b in range(td.batch_size[0]):
            idx = td["action_mask"][b].nonzero().flatten().tolist()
            idx = [i for i in idx if i != 0] or idx
            out.append(idx[k % len(idx)])
    return torch.tensor(out)


def call(pol, td, env, seed=None, **kw):
    if seed is not None:
        torch.manual_seed(seed)
    with torch.no_grad():
        return pol(td.clone(), env, phase="test", **kw)


# ----------------------------------------------------------------------------------------------- C11
def c11_ar(pid, pol, env, td, ms, key, poly=0):
    cfgs = [("greedy", {}), ("sampling", {}), ("sampling", dict(temperature=0.6)), ("sampling", dict(top_k=3))]
    if ms:
        cfgs += [("multistart_greedy", {}), ("multistart_sampling", dict(temperature=0.6))]
    if poly:  # pure multisample (num_samples) and the way PolyNet's model calls it (num_starts + multisample => forced starts)
        cfgs = [("greedy", dict(num_samples=poly)), ("sampling", dict(num_samples=poly)), ("sampling", dict(num_starts=poly, multisample=True))]
    n = td.batch_size[0]
    for dt, kw in cfgs:
        ck = key + (dt, tuple(sorted(kw.items())))
        rep.case(("C11",) + ck)
        info = dict(decode_type=dt, **kw)
        mkw, S, forced = dict(kw), max(poly, 1), "num_starts" in kw
        if "multistart" in dt:
            S = min(3, int(td["action_mask"].shape[-1]) - 1)
            mkw.update(num_starts=S, **({"select_start_nodes_fn": own_starts} if ms == "own" else {}))
            forced = True
        fam = "multistart" if forced else ("multisample" if poly else "single")
        try:
            o1 = call(pol, td, env, seed=A.seed + 7, decode_type=dt, **mkw)
            o2 = call(pol, td, env, seed=A.seed + 7, decode_type=dt, return_entropy=True, return_sum_log_likelihood=False, **mkw)
        except Exception as e:
            fail(f"C11.{pid}.gen.raises.{fam}", f"policy raised on a valid instance with {info}: {type(e).__name__}: {e}", small(td, **info))
            continue
        flat = expand(td, S)
        for tag, o in (("sum", o1), ("all-logp", o2)):
            acts = o["actions"]
            if acts.shape[0] != n * S:
                fail(f"C11.{pid}.gen.shape", f"actions rows {acts.shape[0]} != batch*starts {n * S} ({info})", small(td, **info))
                continue
            rp = replay(pol, env, td if poly else flat, acts, forced=forced, dec_starts=poly, temp=kw.get("temperature", 1.0), top_k=kw.get("top_k", 0))
            inp = small(td, acts, **info)
            if not (rp.feasible.all() and rp.done.all()) or rp.done_before_last:
                fail(f"C11.{pid}.gen.feasible-complete", f"infeasible action / not done / superfluous step ({info}, {tag})", inp)
                continue
            ll = o["log_likelihood"]
            ok = close(ll, rp.lp.sum(1)) if tag == "sum" else close(ll, rp.lp)
            if not ok:
                d = (ll.reshape(len(ll), -1).sum(1) - rp.lp.sum(1)).abs().max().item()
                fail(f"C11.{pid}.gen.ll-equals-step-logp", f"returned log_likelihood differs from sum of step log-probs by {d:.4g} ({info}, {tag})", inp)
            if "greedy" in dt:
                bad = (acts != rp.argmax) & (rp.gap > TIE)
                bad[:, 0] &= not forced
                if bad.any():
                    fail(f"C11.{pid}.gen.greedy-is-argmax", f"greedy action is not the most probable feasible action ({info})", inp)
            if tag == "all-logp" and not close(o["entropy"], rp.ent.sum(1)):
                fail(f"C11.{pid}.gen.entropy", f"entropy {o['entropy'].tolist()} != oracle {rp.ent.sum(1).tolist()} ({info})", inp)
            if rp.reward is not None and not close(o["reward"], rp.reward):
                fail(f"C11.{pid}.gen.reward", f"returned reward differs from reward of returned actions ({info})", inp)
            if tag == "sum":
                continue
            # evaluate round trip on the returned actions
            ekw = dict(num_samples=poly) if poly else dict(kw)
            try:
                ev = call(pol, td if poly else flat, env, actions=acts, return_entropy=True, return_sum_log_likelihood=False, **ekw)
            except Exception as e:
                fail(f"C11.{pid}.eval.raises", f"evaluate pass raised: {type(e).__name__}: {e} ({info})", inp)
                continue
            el, s0 = ev["log_likelihood"], 1 if forced else 0
            if el.shape != rp.lp.shape or not close(el[:, s0:], rp.lp[:, s0:]):
                fail(f"C11.{pid}.eval.steps", f"evaluate per-step log-probs differ from those of generation ({info})", inp)
            elif forced and not close(el[:, 0], rp.lp[:, 0]):
                fail("C11.multistart.eval.first-move-forced", f"{pid}: forced first move has logp 0 at generation but {el[:, 0].tolist()} on re-evaluation, log_likelihood differs ({info})", inp)
            if not close(ev["reward"], o["reward"]):
                fail(f"C11.{pid}.eval.reward", f"evaluate reward differs ({info})", inp)
            if not forced and not close(ev["entropy"], o["entropy"]):
                fail(f"C11.{pid}.eval.entropy", f"evaluate entropy differs ({info})", inp)


def c11_ptr(pid, pol, env, td, key):
    for dt in ("greedy", "sampling"):
        rep.case(("C11",) + key + (dt,))
        o = call(pol, td, env, seed=A.seed + 7, decode_type=dt)
        acts, inp = o["actions"], small(td, o["actions"], decode_type=dt)
        if not all(sorted(a.tolist()) == list(range(acts.size(1))) for a in acts):
            fail(f"C11.{pid}.gen.feasible-complete", "tour is not a permutation", inp)
            continue
        lp = ptr_replay(pol, td, acts)
        if not close(o["log_likelihood"], lp.sum(1)):
            fail(f"C11.{pid}.gen.ll-equals-step-logp", f"log_likelihood {o['log_likelihood'].tolist()} != oracle {lp.sum(1).tolist()}", inp)
        ev = call(pol, td, env, decode_type=dt, eval_tours=acts)
        if not (ev["actions"] == acts).all() or not close(ev["log_likelihood"], lp.sum(1)) or not close(ev["reward"], o["reward"]):
            fail(f"C11.{pid}.eval.steps", "eval_tours pass does not reproduce actions / log_likelihood / reward", inp)


def c11_mdam(pid, pol, env, td, key):
    for dt in ("greedy", "sampling"):
        rep.case(("C11",) + key + (dt,))
        o = call(pol, td, env, seed=A.seed + 7, decode_type=dt)
        acts, inp = o["actions"], small(td, o["actions"], decode_type=dt)
        lp, raw, done = mdam_replay(pol, env, td, acts)
        ll = o["log_likelihood"][:, -1]
        if not done.all():
            fail(f"C11.{pid}.gen.feasible-complete", "returned actions do not complete the episode", inp)
        elif not close(ll, lp.sum(1)):
            nm = "ll-unnormalised-logits" if close(ll, raw.sum(1)) else "ll-equals-step-logp"
            fail(f"C11.{pid}.gen.{nm}", f"log_likelihood (last path) {ll.tolist()} != sum of normalised step log-probs {lp.sum(1).tolist()}", inp)


def c11_mask_unit(key):
    rep.case(("C11", "get_log_likelihood.mask") + key)
    g = torch.Generator().manual_seed(A.seed + key[-1])
    lp = -torch.rand(4, 6, 5, generator=g) - 0.1
    acts, m = torch.randint(0, 5, (4, 6), generator=g), torch.rand(4, 6, generator=g) > 0.4
    want = (lp.gather(-1, acts[..., None]).squeeze(-1) * m).sum(1)
    for a, l in ((acts, lp.clone()), (None, lp.gather(-1, acts[..., None]).squeeze(-1))):
        if not close(get_log_likelihood(l, a, m, True), want):
            fail("C11.get_log_likelihood.mask", "masked (irrelevant) steps do not contribute exactly zero", dict(logprobs=lp, actions=acts, mask=m))
    env, pol = get_env("tsp", generator_params=dict(num_loc=5)), _am("tsp")().eval()
    td = env.reset(batch_size=[3])
    td["mask"] = m[:3, :5].clone()
    o = call(pol, td, env, decode_type="greedy")
    rp = replay(pol, env, td, o["actions"])
    if not close(o["log_likelihood"], (rp.lp * m[:3, :5]).sum(1)):
        fail("C11.am.tsp.gen.td-mask-zeroes-steps", "td['mask'] steps not zeroed in log_likelihood", small(td, o["actions"], mask=m[:3, :5]))


# ----------------------------------------------------------------------------------------------- C13
def own_beam(pol, env, td, first, W):
    """Independent beam search, b-major rows (b*W+w), history re-indexed each step. first: [(w b)] forced first moves."""
    n = td.batch_size[0]
    with torch.no_grad():
        cur = td[torch.arange(n * W) // W].clone()
        hidden, _ = pol.encoder(cur)
        cur, _, hidden = pol.decoder.pre_decoder_hook(cur, env, hidden, 0)
        a0 = first.view(W, n).t().reshape(-1)
        cur.set("action", a0)
        cur = env.step(cur)["next"]
        hist, score, tie = a0[:, None], torch.zeros(n * W).double(), torch.zeros(n, dtype=torch.bool)
        while not cur["done"].all():
            logits, _ = pol.decoder(cur, hidden, 0)
            l = step_logp(pol, logits, cur["action_mask"])
            N = l.size(-1)
            cand = (score[:, None] + l).view(n, W * N)
            top = cand.topk(W + 1, 1)
            tie |= (top.values[:, W - 1] - top.values[:, W]) < TIE
            idx = top.indices[:, :W]
            src = (torch.arange(n)[:, None] * W + idx // N).reshape(-1)
            node = (idx % N).reshape(-1)
            cur, hist, score = cur[src], torch.cat([hist[src], node[:, None]], 1), top.values[:, :W].reshape(-1)
            cur.set("action", node)
            cur = env.step(cur)["next"]
    return hist.view(n, W, -1), score.view(n, W), tie


def c13(pid, pol, env, td, ms, key):
    n, N = td.batch_size[0], int(td["action_mask"].shape[-1])
    widths = sorted({2, N - 1}) if QUICK else list(range(2, N + 1))
    for W in widths:
        rep.case(("C13",) + key + (W,))
        rec = {}
        base = own_starts if ms == "own" else (lambda t, e, k: e.select_start_nodes(t, num_starts=k))

        def fn(t, e, k):
            rec["a"] = base(t, e, k).clone()
            return rec["a"]

        info = dict(decode_type="beam_search", beam_width=W)
        try:
            oa = call(pol, td, env, decode_type="beam_search", beam_width=W, select_best=False, select_start_nodes_fn=fn, return_sum_log_likelihood=False)
            ob = call(pol, td, env, decode_type="beam_search", beam_width=W, select_best=True, select_start_nodes_fn=fn)
        except Exception as e:
            fail(f"C13.{pid}.beam.raises", f"beam search raised on a valid instance: {type(e).__name__}: {e} ({info})", small(td, **info))
            continue
        acts, first = oa["actions"], rec["a"]
        inp = small(td, acts, first_moves=first, **info)
        flat = expand(td, W)
        rp = replay(pol, env, flat, acts, forced=True)
        if acts.shape[0] != n * W or not (rp.feasible.all() and rp.done.all()) or rp.done_before_last:
            fail(f"C13.{pid}.beam.feasible-complete", f"a returned beam is infeasible / incomplete ({info})", inp)
            continue
        if not close(oa["log_likelihood"], rp.lp):
            fail(f"C13.{pid}.beam.ll-equals-sequence-logp", f"beam per-step log-probs are not those of the returned sequence, max diff {(oa['log_likelihood'] - rp.lp).abs().max():.4g} ({info})", inp)
        if not close(oa["reward"], rp.reward):
            fail(f"C13.{pid}.beam.reward", f"beam rewards are not those of the returned sequences ({info})", inp)
        seqs = acts.view(W, n, -1).transpose(0, 1)  # [n, W, T]
        hist, score, tie = own_beam(pol, env, td, first, W)
        for b in range(n):
            mine = {tuple(s.tolist()) for s in seqs[b]}
            if len(set(first.view(W, n)[:, b].tolist())) == W and len(mine) < W:
                fail(f"C13.{pid}.beam.distinct", f"instance {b}: beams not pairwise distinct although first moves are ({info})", inp)
            if not tie[b] and mine != {tuple(s.tolist()) for s in hist[b]}:
                fail(f"C13.{pid}.beam.topk-matches-oracle", f"instance {b}: kept beams {sorted(mine)} != oracle beam search {hist[b].tolist()} ({info})", inp)
        best = rp.reward.view(W, n).max(0).values
        rb = replay(pol, env, td, ob["actions"], forced=True)
        ok = close(ob["reward"], best) and rb.reward is not None and close(rb.reward, best) and close(ob["log_likelihood"], rb.lp.sum(1))
        ok = ok and all(tuple(ob["actions"][b].tolist()) in {tuple(s.tolist()) for s in seqs[b]} for b in range(n))
        if not ok:
            fail(f"C13.{pid}.beam.select-best-is-max", f"select_best result {ob['reward'].tolist()} is not the best beam {best.tolist()} (or its actions/ll are not that beam's) ({info})", inp)
        try:
            ev = call(pol, flat, env, actions=acts, return_sum_log_likelihood=False)
            if not close(ev["log_likelihood"][:, 1:], rp.lp[:, 1:]) or not close(ev["reward"], oa["reward"]):
                fail(f"C13.{pid}.beam.eval.steps", f"evaluate pass of the beams differs after the first move ({info})", inp)
            elif not close(ev["log_likelihood"][:, 0], rp.lp[:, 0]):
                fail("C13.beam.eval.first-move-forced", f"{pid}: forced first move logp 0 in beam search but {ev['log_likelihood'][:, 0].tolist()} on re-evaluation ({info})", inp)
        except Exception as e:
            fail(f"C13.{pid}.beam.eval.raises", f"evaluate pass raised {type(e).__name__}: {e}", inp)


# ----------------------------------------------------------------------------------------------- C14
def c14(pid, pol, env, td, kind, ms, key, tag=""):
    n = td.batch_size[0]
    modes = [("greedy", {}, 1)]
    if kind == "poly":
        modes = [("greedy", dict(num_starts=3, multisample=True), 3)]
    elif ms and kind == "ar":
        S = min(3, int(td["action_mask"].shape[-1]) - 1)
        modes.append(("multistart_greedy", dict(num_starts=S, **({"select_start_nodes_fn": own_starts} if ms == "own" else {})), S))
    for dt, kw, S in modes:
        def run(idx):
            o = call(pol, td[torch.tensor(idx)], env, decode_type=dt, **kw)
            k = len(idx)
            f = lambda x: x.reshape(S, k, *x.shape[1:]).transpose(0, 1) if S > 1 else x[:, None]
            acts = o["actions"] if kind != "mdam" else o["actions"]
            return f(acts), f(o["reward"]).reshape(k, -1), f(o["log_likelihood"]).reshape(k, -1)

        try:
            full = run(list(range(n)))
        except Exception as e:
            fail(f"C14.{pid}{tag}.{dt}.raises", f"full batch raised {type(e).__name__}: {e}", small(td, decode_type=dt))
            continue
        comps = [("solo", [[i] for i in range(n)]), ("reversed", [list(range(n))[::-1]]), ("subsample", [[n - 1, 0]]), ("duplicates", [[1, 0, 1, 1]])]
        for cname, batches in comps:
            for idx in batches:
                rep.case(("C14",) + key + (dt, cname, tuple(idx)))
                info = dict(decode_type=dt, batch_rows=idx, composition=cname)
                try:
                    got = run(idx)
                except Exception as e:
                    nm = f"C14.{pid}{tag}.{dt}.raises" + ("-batch-size-1" if len(idx) == 1 else "")
                    fail(nm, f"policy raised on batch {idx}: {type(e).__name__}: {str(e)[:200]}", small(td[torch.tensor(idx)], **info))
                    continue
                for j, i in enumerate(idx):
                    fa, ga = full[0][i], got[0][j]  # [S, T]
                    T = min(fa.size(1), ga.size(1))
                    inp = small(td, None, full_actions=fa, other_actions=ga, **info)
                    diff = (fa[:, :T] != ga[:, :T]).nonzero()
                    if len(diff) and kind in ("ar", "poly"):
                        s, t = diff[0].tolist()
                        rows = td[torch.tensor([i])]
                        rp = replay(pol, env, expand(rows, S) if kind == "ar" else rows, fa.reshape(S, -1)[:, : t + 1], forced=(S > 1 and kind == "ar"), dec_starts=S if kind == "poly" else 0)
                        if rp.gap[s, t] < TIE:
                            continue
                    if len(diff):
                        fail(f"C14.{pid}{tag}.greedy.actions", f"instance {i}: greedy actions depend on batch composition ({info})", inp)
                        continue
                    if not close(full[1][i], got[1][j]):
                        fail(f"C14.{pid}{tag}.greedy.reward", f"instance {i}: reward {full[1][i].tolist()} in full batch vs {got[1][j].tolist()} ({info})", inp)
                    if not close(full[2][i], got[2][j]):
                        fail(f"C14.{pid}{tag}.greedy.ll", f"instance {i}: log-likelihood {full[2][i].tolist()} in full batch vs {got[2][j].tolist()} ({info})", inp)


# ----------------------------------------------------------------------------------------------- driver
def smoke():
    rep.case(("smoke", "sdvrp-checker"))
    env = get_env("sdvrp", generator_params=dict(num_loc=4))
    g = env.generator(batch_size=[1])
    g["demand"] = torch.full_like(g["demand"], 0.1)
    try:
        call(_am("sdvrp")().eval(), env.reset(g), env, actions=torch.tensor([[1, 2, 3, 4]]))
    except AssertionError as e:
        fail("C14.am.sdvrp.batch-size-1.checker-rejects-depotless-tour", f"policy(td, env, actions=[[1,2,3,4]]) on one instance (demand 0.1 each, capacity 1) raised: {e}", small(g))
    for name, mk in (("C14.matnet.ffsp.policy-raises", lambda: (MatNetPolicy(env_name="ffsp", **SM), get_env("ffsp", generator_params=dict(num_job=4, num_machine=2, num_stage=2)))),
                     ("C14.l2dattn.jssp.policy-raises", lambda: (L2DAttnPolicy(env_name="jssp", **SM), get_env("jssp", generator_params=dict(num_jobs=3, num_machines=2))))):
        rep.case(("smoke", name))
        try:
            pol, env = mk()
            call(pol.eval(), env.reset(batch_size=[2]), env, decode_type="greedy")
        except Exception as e:
            fail(name, f"bundled policy cannot be built/run on its environment: {type(e).__name__}: {str(e)[:160]}")


def main():
    only = [s for s in A.only.split(",") if s]
    props = [p for p in A.prop.split(",") if p] or ["C11", "C13", "C14"]
    budget, skipped = A.budget or (45 if QUICK else 480), 0
    for seed in SEEDS:  # seeds/sizes outermost: every pair is covered before a wall-clock budget can truncate the grid
        for n in SIZES:
            for pid, mkpol, mkenv, kind, ms, beam in ZOO:
                if only and not any(s in pid for s in only):
                    continue
                if rep.elapsed() > budget:
                    skipped += 1
                    continue
                key = (pid, n, seed)

                def one():
                    torch.manual_seed(1000 * A.seed + 17 * seed + n)
                    pol, env = mkpol().eval(), mkenv(n)
                    td = env.reset(batch_size=[B])
                    if "C11" in props:
                        {"ar": lambda: c11_ar(pid, pol, env, td, ms, key), "poly": lambda: c11_ar(pid, pol, env, td, None, key, poly=3),
                         "ptr": lambda: c11_ptr(pid, pol, env, td, key), "mdam": lambda: c11_mdam(pid, pol, env, td, key)}[kind]()
                    if "C13" in props and beam:
                        c13(pid, pol, env, td, ms, key)
                    if "C14" in props:
                        c14(pid, pol, env, td, kind, ms, key)

                rep.guard(one, f"{pid} n={n} seed={seed}")
    if skipped:
        rep.bound += f" [wall-clock budget {budget}s hit: {skipped} (pair, size, seed) cells at the end of the grid were skipped]"
    if not only:
        if "C11" in props:
            for s in SEEDS:
                rep.guard(lambda: c11_mask_unit((s,)), "mask unit")
        if "C14" in props:
            rep.guard(smoke, "smoke")
            torch.manual_seed(A.seed)
            env, pol = get_env("atsp", generator_params=dict(num_loc=5)), _matnet(det=False).eval()
            rep.guard(lambda: c14("matnet.atsp", pol, env, env.reset(batch_size=[B]), "ar", None, ("matnet.atsp.random-init", 5, 0), tag=".random-onehot-init"), "matnet random init")


if __name__ == "__main__":
    main()
    sys.exit(rep.finish())
