"""Bounded stand-in for C11 / C13 / C14: constructive policies, decoding strategies, evaluate round trip.

Real code under test: rl4co/models/common/constructive/base.py (ConstructivePolicy.forward), rl4co/utils/decoding.py
(Greedy, Sampling, Evaluate, BeamSearch, multistart/multisample hooks, process_logits, get_log_likelihood), the decoders'
multi-start paths, and the zoo policies (random weights, eval mode) on tiny instances.

Oracle (never the decoding code itself): `replay` re-runs an action sequence with an OWN loop: encoder -> decoder logits ->
own tanh-clip / mask (env `action_mask`) / temperature / top-k / log-softmax -> log-prob + entropy of the given action ->
env.step. Multi-start / beam rows are replayed as independent flat instances (own row expansion, decoder num_starts=0), so
the (s b) layouts, batchify/unbatchify and beam back-tracking are not trusted. PolyNet (strategy = sample index) is
replayed through its decoder with num_starts=K; PointerNetwork and MDAM have own replays of their step networks.

Clauses (name = "<Cxx>.<policy.env>.<suffix>"; "*.raises*" = the library raised on a valid input):
 C11 gen.feasible-complete     every returned action is allowed by env.action_mask at its step, all rows done at the end,
                               no superfluous step
 C11 gen.ll-equals-step-logp   returned log_likelihood == sum_t oracle logp(a_t); forced multistart first move counts 0
                               (both store_all_logp paths: return_entropy False -> summed, True -> per step)
 C11 gen.greedy-is-argmax      greedy picks the oracle argmax (unless top-2 gap < 1e-4)
 C11 gen.entropy / gen.reward  returned entropy == sum_t oracle step entropy; reward == env reward of the returned actions
 C11 eval.steps / eval.first-move-forced / eval.reward / eval.entropy
                               policy(td, env, actions=returned) reproduces per-step logp, reward, entropy
 C11 get_log_likelihood.mask   steps flagged irrelevant (mask False) contribute exactly 0 (unit + td["mask"] on TSP)
 C13 beam.feasible-complete / beam.ll-equals-sequence-logp / beam.reward / beam.distinct (when forced first moves are) /
     beam.topk-matches-oracle (own beam search, b-major layout, history re-indexed every step; skipped on score ties
     < 1e-4) / beam.select-best-is-max / beam.eval.steps / beam.eval.first-move-forced
 C14 <decode>.actions / .reward / .ll / .raises[-batch-size-1]   instance decoded solo (batch 1), at another position
     (reversed batch), in a sub-sampled batch and in a batch with duplicates == decoded in the full batch (actions exact
     up to the shorter episode, a differing action only accepted if the oracle top-2 gap there is < 1e-4; floats 1e-4)
Bound: see `BOUND` (built from the tier tables below).
"""
import logging
import os
import signal
import sys
import warnings
from types import SimpleNamespace

sys.path.insert(0, os.path.dirname(os.path.abspath(__file__)))
import _lib  # noqa: E402

_lib.setup_path()
warnings.filterwarnings("ignore")
import torch  # noqa: E402
from torch import nn  # noqa: E402

logging.disable(logging.WARNING)
from rl4co.envs import get_env  # noqa: E402
from rl4co.models.zoo import (  # noqa: E402
    AttentionModelPolicy, HeterogeneousAttentionModelPolicy, MatNetPolicy, MDAMPolicy, PointerNetworkPolicy, SymNCOPolicy,
)
from rl4co.models.zoo.l2d import L2DAttnPolicy, L2DPolicy, L2DPolicy4PPO  # noqa: E402
from rl4co.models.zoo.polynet.policy import PolyNetPolicy  # noqa: E402
from rl4co.utils.decoding import get_log_likelihood  # noqa: E402

KNOWN = {  # confirmed defects of the unchanged library (clause name -> failing input/config)
    "C11.multistart.eval.first-move-forced": "any multistart_* output re-evaluated with policy(batchify(td, S), env, actions=a): step 0 gets the policy's log-prob instead of the forced 0, so log_likelihood differs",
    "C13.beam.eval.first-move-forced": "any beam_search output re-evaluated with policy(batchify(td, W), env, actions=a): forced first move gets the policy's log-prob instead of 0",
    "C11.am.mtsp.gen.raises.multistart": "AttentionModelPolicy(mtsp), multistart_*: MTSPContext._distance_from_depot gathers on dim 1 of the [B,S,N,2] multi-start view -> index out of bounds",
    "C14.am.mtsp.multistart_greedy.raises": "same MTSPContext multi-start gather failure, reached from the per-instance check",
    "C14.am.mtsp.greedy.raises-batch-size-1": "AttentionModelPolicy(mtsp) on a batch of ONE instance: MTSPContext._cur_node_embedding .squeeze() drops the batch dim -> cat error",
    "C14.am.mtsp.greedy.reward": "MTSPEnv (minmax): padding depot steps after an instance is done change its reward, so the reward depends on the batch's longest episode",
    "C14.am.mdcpdp.greedy.reward": "MDCPDPEnv batched step adds row 0's leg length to every row: the reward of an instance differs solo vs in a batch",
    "C11.mdam.tsp.gen.ll-unnormalised-logits": "MDAMPolicy: log_likelihood is the sum of masked/clipped LOGITS (no log-softmax), e.g. positive values",
    "C11.mdam.cvrp.gen.ll-unnormalised-logits": "MDAMPolicy(cvrp): same, log_likelihood is a sum of unnormalised logits",
    "C14.mdam.cvrp.greedy.ll": "MDAMPolicy(cvrp): padding steps after an instance is done add their (unnormalised) depot logit, so log_likelihood depends on the batch's longest episode",
    "C14.am.sdvrp.batch-size-1.checker-rejects-depotless-tour": "SDVRPEnv.check_solution_validity needs a depot visit to zero its -capacity entry: the complete single-trip tour 1,2,3,4 evaluated alone raises 'All demand must be satisfied' (in a batch, padding depot steps hide it); the sdvrp pair therefore runs with check_solution=False + the own feasibility oracle",
    "C14.matnet.atsp.random-onehot-init.greedy.actions": "MatNetPolicy's default init embedding draws a fresh random one-hot column embedding per call/batch row even in eval mode",
    "C14.matnet.atsp.random-onehot-init.greedy.ll": "same (MatNet RandomOneHot init embedding)",
    "C14.matnet.atsp.random-onehot-init.greedy.reward": "same (MatNet RandomOneHot init embedding)",
    "C14.matnet.ffsp.policy-raises": "MatNetPolicy(env_name='ffsp') cannot be constructed: MatNetFFSPDecoder passes out_bias to AttentionModelDecoder.__init__",
    "C14.l2dattn.jssp.policy-raises": "L2DAttnPolicy forward: the decoder receives the (cache,) tuple from its pre_decoder_hook -> AttributeError",
}
TOL, TIE = 1e-4, 1e-4
A = _lib.args()
torch.set_num_threads(2)
QUICK = A.tier != "thorough"
SIZES, SEEDS, B = [5, 7], ([0] if QUICK else [0, 1, 2, 3]), (3 if QUICK else 4)
SM = dict(embed_dim=16, num_heads=2, num_encoder_layers=1)


class DetOneHot(nn.Module):
    """Deterministic per-instance replacement for MatNet's RandomOneHot init embedding (col j -> e_j)."""

    def forward(self, td):
        m = td["cost_matrix"]
        b, r, c = m.shape
        return torch.zeros(b, r, 16), torch.eye(c, 16)[None].repeat(b, 1, 1), m


def _matnet(det=True):
    p = MatNetPolicy(env_name="atsp", **SM)
    if det:
        p.encoder.init_embedding = DetOneHot()
    return p


def _env(name, key="num_loc", f=lambda n: n, **gp):
    return lambda n: get_env(name, **({"check_solution": False} if name == "sdvrp" else {}), generator_params=dict({key: f(n)}, **gp))


def _am(env, cls=AttentionModelPolicy, **kw):
    return lambda: cls(env_name=env, feedforward_hidden=16, **dict(SM, **kw))


def _l2d(cls, env):
    return lambda: cls(env_name=env, embed_dim=16, num_encoder_layers=1)


_even, _jobs = (lambda n: n + n % 2), (lambda n: (n + 1) // 2)
# id, policy factory, env factory(n), kind, multistart ("env" = env.select_start_nodes, "own" = own feasible starts, None), beam
ZOO = [
    ("am.tsp", _am("tsp"), _env("tsp"), "ar", "env", True),
    ("am.cvrp", _am("cvrp"), _env("cvrp"), "ar", "env", True),
    # policies CONSTRUCTED with a non-default softmax temperature (no temperature kwarg at call time): every decode type,
    # beam search included, must score with the policy's own distribution softmax(logits / T)
    ("am.tsp.T0.5", _am("tsp", temperature=0.5), _env("tsp"), "ar", "env", True),
    ("am.cvrp.T2", _am("cvrp", temperature=2.0), _env("cvrp"), "ar", "env", True),
    ("pomo.cvrp", _am("cvrp", use_graph_context=False, normalization="instance"), _env("cvrp"), "ar", "env", True),
    ("am.sdvrp", _am("sdvrp"), _env("sdvrp"), "ar", "env", True),
    ("am.cvrptw", _am("cvrptw"), _env("cvrptw"), "ar", "own", True),
    ("am.op", _am("op"), _env("op"), "ar", "own", True),
    ("am.pctsp", _am("pctsp"), _env("pctsp"), "ar", "env", True),
    ("am.spctsp", _am("spctsp"), _env("spctsp"), "ar", "env", False),
    ("am.pdp", _am("pdp"), _env("pdp", f=_even), "ar", "env", True),
    ("ham.pdp", _am("pdp", cls=HeterogeneousAttentionModelPolicy), _env("pdp", f=_even), "ar", "env", False),
    ("am.mtsp", _am("mtsp"), _env("mtsp", min_num_agents=2, max_num_agents=2), "ar", "own", False),
    ("am.svrp", _am("svrp"), _env("svrp"), "ar", None, False),
    ("am.smtwtp", _am("smtwtp"), _env("smtwtp", key="num_job"), "ar", "own", False),
    ("am.mdcpdp", _am("mdcpdp"), _env("mdcpdp", f=_even, num_depot=3), "ar", None, False),
    ("symnco.tsp", _am("tsp", cls=SymNCOPolicy), _env("tsp"), "ar", "env", False),
    ("matnet.atsp", _matnet, _env("atsp"), "ar", "env", True),
    ("polynet.tsp", lambda: PolyNetPolicy(k=3, env_name="tsp", feedforward_hidden=16, **SM), _env("tsp"), "poly", None, False),
    ("polynet.cvrp", lambda: PolyNetPolicy(k=3, env_name="cvrp", feedforward_hidden=16, **SM), _env("cvrp"), "poly", None, False),
    ("l2d.jssp", _l2d(L2DPolicy, "jssp"), _env("jssp", key="num_jobs", f=_jobs, num_machines=2), "ar", None, False),
    ("l2d.fjsp", _l2d(L2DPolicy, "fjsp"), _env("fjsp", key="num_jobs", f=_jobs, num_machines=2), "ar", None, False),
    ("l2dppo.jssp", _l2d(L2DPolicy4PPO, "jssp"), _env("jssp", key="num_jobs", f=_jobs, num_machines=2), "ar", None, False),
    ("ptrnet.tsp", lambda: PointerNetworkPolicy(embed_dim=16, hidden_dim=16), _env("tsp"), "ptr", None, False),
    ("mdam.tsp", lambda: MDAMPolicy(env_name="tsp", num_paths=2, **SM), _env("tsp"), "mdam", None, False),
    ("mdam.cvrp", lambda: MDAMPolicy(env_name="cvrp", num_paths=2, **SM), _env("cvrp"), "mdam", None, False),
]
BOUND = (
    f"tier={A.tier}: {len(ZOO)} policy/env pairs {[z[0] for z in ZOO]}, random weights (embed 16, 2 heads, 1 layer, eval mode; MatNet with a "
    f"deterministic one-hot init embedding, plus one run of its default random init); instance sizes n in {SIZES} (num_loc=n, pdp/mdcpdp "
    f"rounded up to even, mdcpdp 3 depots, mtsp 2 agents, smtwtp n jobs, jssp/fjsp (n+1)//2 jobs x 2 machines), generator seeds {SEEDS}, "
    f"batch {B}. C11: greedy, sampling, sampling@temperature 0.6, sampling@top_k 3, multistart_greedy, multistart_sampling@0.6 with 3 "
    f"starts (PolyNet: num_samples=3 greedy/sampling and num_starts=3+multisample), each with store_all_logp off and on, plus the "
    f"evaluate pass. C13: beam widths {'{2, N-1}' if QUICK else '2..N'} (N = number of actions) x select_best on/off on the 9 beam-enabled pairs. "
    f"C14: solo x{B}, reversed, sub-sampled [last, first], duplicated [1,0,1,1] batches vs the full batch; greedy, and multistart_greedy / "
    f"multisample greedy where supported. get_log_likelihood mask unit test: {len(SEEDS)} random tensors."
)
rep = _lib.Report(bound=BOUND, rule="case = (clause family, policy.env, size, seed, decode config[, beam width | batch composition]); distinct by that key", max_violations=40)


def fail(name, what, inp=None):
    (rep.known if name in KNOWN else rep.violation)(name, what, inp)


def close(a, b, tol=TOL):
    return a.shape == b.shape and bool(torch.allclose(a.float(), b.float(), atol=tol, rtol=1e-6))


def small(td, acts=None, **extra):
    keys = ("locs", "cost_matrix", "demand", "prize", "penalty", "time_windows", "durations", "proc_times", "job_due_time", "job_weight", "job_process_time", "depot")
    d = {k: td[k] for k in keys if k in td.keys()}
    if acts is not None:
        d["actions"] = acts
    return dict(d, **extra)


def call(pol, td, env, seed=None, **kw):
    if seed is not None:
        torch.manual_seed(seed)
    with torch.no_grad():  # max_steps bounds the library's decoding loop so a broken policy cannot hang the check
        return pol(td.clone(), env, phase="test", max_steps=200, **kw)


def tcall(name, inp, *a, **kw):
    """call(); an exception raised by the library on this valid input is a failure of clause `name`."""
    try:
        return call(*a, **kw)
    except Exception as e:
        fail(name, f"library raised {type(e).__name__}: {str(e)[:200]} ({ {k: v for k, v in kw.items() if not callable(v) and not torch.is_tensor(v)} })", inp)


# ----------------------------------------------------------------------------------------------- oracle
def ptemp(pol):
    """The policy's construction-time softmax temperature (used whenever the call passes none)."""
    t = getattr(pol, "temperature", 1.0)
    return float(t) if isinstance(t, (int, float)) else 1.0


def step_logp(pol, logits, mask, temp=1.0, top_k=0):
    """Own masked, clipped, temperature-scaled, (top-k filtered) and normalised step distribution."""
    x = logits.detach().clone()
    clip = float(getattr(pol, "tanh_clipping", 0) or 0)
    if clip > 0:
        x = torch.tanh(x) * clip  # in the logits' own precision: saturated logits tie exactly as they do in the library
    x = x.double().masked_fill(~mask, float("-inf")) / temp
    if top_k > 0:
        kth = x.sort(-1, descending=True).values[..., min(top_k, x.size(-1)) - 1, None]
        x = x.masked_fill(x < kth, float("-inf"))
    return x - torch.logsumexp(x, -1, keepdim=True)


def expand(td, s):
    """Own (s b) row expansion: row s*B+b is instance b."""
    n = td.batch_size[0]
    return td[torch.arange(s * n) % n].clone()


def replay(pol, env, td, actions, forced=False, dec_starts=0, temp=1.0, top_k=0):
    """Own rollout of `actions` [R,T] from reset state(s). dec_starts=0: td has R rows (flat, independent instances);
    dec_starts=K: td has R/K rows and the decoder's own multi-start path is used (PolyNet only)."""
    r = SimpleNamespace()
    with torch.no_grad():
        td = td.clone()
        hidden, _ = pol.encoder(td)
        if dec_starts:
            td = expand(td, dec_starts)
        td, _, hidden = pol.decoder.pre_decoder_hook(td, env, hidden, dec_starts)
        R, T = actions.shape
        lp, ent, gap = torch.zeros(R, T).double(), torch.zeros(R, T).double(), torch.full((R, T), 9.0).double()
        feas, am, r.superfluous = torch.ones(R, dtype=torch.bool), torch.zeros(R, T, dtype=torch.long), False
        for t in range(T):
            r.superfluous |= t == T - 1 and bool(td["done"].all())
            a, mask = actions[:, t], td["action_mask"].clone()
            feas &= mask.gather(1, a[:, None]).squeeze(1)
            if not (forced and t == 0):
                logits, _ = pol.decoder(td, hidden, dec_starts)
                l = step_logp(pol, logits, mask, temp, top_k)
                lp[:, t] = l.gather(1, a[:, None]).squeeze(1)
                ent[:, t] = -(l.exp() * l.masked_fill(l.isinf(), 0)).sum(-1)
                am[:, t] = l.argmax(-1)
                if l.size(-1) > 1:
                    top = l.topk(2, -1).values
                    gap[:, t] = top[:, 0] - top[:, 1]
            td.set("action", a)
            td = env.step(td)["next"]
        r.lp, r.ent, r.gap, r.feasible, r.argmax, r.done = lp.float(), ent.float(), gap, feas, am, td["done"].reshape(R).clone()
        r.valid = bool(r.done.all() and feas.all())  # feasible and complete; ok additionally: no step after all rows were done
        r.ok, r.reward = r.valid and not r.superfluous, env.get_reward(td, actions) if r.valid else None
    return r


def ptr_replay(pol, td, actions):
    """Own unrolling of the pointer network's LSTM/glimpse/pointer step with own visited-mask and log-softmax."""
    with torch.no_grad():
        locs = td["locs"]
        n, g, _ = locs.shape
        emb = torch.mm(locs.transpose(0, 1).contiguous().view(-1, 2), pol.embedding).view(g, n, -1)
        z = torch.zeros(1, n, emb.size(-1))
        enc_h, (h, c) = pol.encoder(emb, (z, z))
        hid, x, mask, lp = (h[-1], c[-1]), pol.decoder_in_0[None].repeat(n, 1), torch.ones(n, g, dtype=torch.bool), torch.zeros(n, g)
        for t in range(g):
            logits, hid = pol.decoder.calc_logits(x, hid, mask, enc_h, mask_logits=False)
            l = logits.double().masked_fill(~mask, float("-inf")).log_softmax(-1)
            a = actions[:, t]
            lp[:, t] = l.gather(1, a[:, None]).squeeze(1).float()
            mask = mask.clone()
            mask[torch.arange(n), a] = False
            x = emb[a, torch.arange(n)]
    return lp


def mdam_replay(pol, env, td, actions):
    """Normalised log-prob and raw masked logit of the returned actions under the LAST decoder path (the only path whose
    actions MDAM returns)."""
    with torch.no_grad():
        enc = pol.encoder(pol.init_embedding(td))[0]
        p = pol.decoder.num_paths - 1
        fixed, td = pol.decoder._precompute(enc, path_index=p), td.clone()
        lp, raw = torch.zeros(actions.shape), torch.zeros(actions.shape)
        for t in range(actions.size(1)):
            x = pol.decoder._get_logprobs(fixed, td, p)[0][:, 0].double().masked_fill(~td["action_mask"], float("-inf"))
            raw[:, t] = x.gather(1, actions[:, t, None]).squeeze(1).float()
            lp[:, t] = x.log_softmax(-1).gather(1, actions[:, t, None]).squeeze(1).float()
            td.set("action", actions[:, t])
            td = env.step(td)["next"]
    return lp, raw, td["done"].reshape(-1)


def own_starts(td, env, s):
    """Feasible, as-distinct-as-possible first moves, (s b) order; avoids index 0 when another move is feasible."""
    out = []
    for k in range(s):
        for b in range(td.batch_size[0]):
            idx = td["action_mask"][b].nonzero().flatten().tolist()
            idx = [i for i in idx if i != 0] or idx
            out.append(idx[k % len(idx)])
    return torch.tensor(out)


def ms_kwargs(td, ms):
    S = min(3, int(td["action_mask"].shape[-1]) - 1)
    return S, dict(num_starts=S, **({"select_start_nodes_fn": own_starts} if ms == "own" else {}))


# ----------------------------------------------------------------------------------------------- C11
def c11_ar(pid, pol, env, td, ms, key, poly=0):
    cfgs = [("greedy", {}), ("sampling", {}), ("sampling", dict(temperature=0.6)), ("sampling", dict(top_k=3))]
    if ms:
        cfgs += [("multistart_greedy", {}), ("multistart_sampling", dict(temperature=0.6))]
    if poly:  # pure multisample (num_samples) and the way PolyNet's model calls it (num_starts + multisample => forced starts)
        cfgs = [("greedy", dict(num_samples=poly)), ("sampling", dict(num_samples=poly)), ("sampling", dict(num_starts=poly, multisample=True))]
    n = td.batch_size[0]
    for dt, kw in cfgs:
        rep.case(("C11",) + key + (dt, tuple(sorted(kw.items()))))
        info = dict(decode_type=dt, **kw)
        mkw, S, forced = dict(kw), max(poly, 1), "num_starts" in kw
        if "multistart" in dt:
            (S, extra), forced = ms_kwargs(td, ms), True
            mkw.update(extra)
        fam = "multistart" if forced else ("multisample" if poly else "single")
        flat = td if poly else expand(td, S)
        for tag, okw in (("sum", {}), ("all-logp", dict(return_entropy=True, return_sum_log_likelihood=False))):
            o = tcall(f"C11.{pid}.gen.raises.{fam}", small(td, **info), pol, td, env, seed=A.seed + 7, decode_type=dt, **okw, **mkw)
            if o is None:
                break
            acts = o["actions"]
            inp = small(td, acts, **info)
            if acts.shape[0] != n * S:
                fail(f"C11.{pid}.gen.shape", f"actions rows {acts.shape[0]} != batch*starts {n * S} ({info})", inp)
                continue
            rp = replay(pol, env, flat, acts, forced=forced, dec_starts=poly, temp=kw.get("temperature", ptemp(pol)), top_k=kw.get("top_k", 0))
            if not rp.ok:
                fail(f"C11.{pid}.gen.feasible-complete", f"infeasible action / not done / superfluous step ({info}, {tag})", inp)
                continue
            ll = o["log_likelihood"]
            if not close(ll, rp.lp.sum(1) if tag == "sum" else rp.lp):
                d = (ll.reshape(len(ll), -1).sum(1) - rp.lp.sum(1)).abs().max().item()
                fail(f"C11.{pid}.gen.ll-equals-step-logp", f"returned log_likelihood differs from the sum of step log-probs by {d:.4g} ({info}, {tag})", inp)
            if "greedy" in dt:
                bad = (acts != rp.argmax) & (rp.gap > TIE)
                bad[:, 0] &= not forced
                if bad.any():
                    fail(f"C11.{pid}.gen.greedy-is-argmax", f"greedy action is not the most probable feasible action ({info})", inp)
            if not close(o["reward"], rp.reward):
                fail(f"C11.{pid}.gen.reward", f"returned reward differs from the reward of the returned actions ({info})", inp)
            if tag == "sum":
                continue
            if not close(o["entropy"], rp.ent.sum(1)):
                fail(f"C11.{pid}.gen.entropy", f"entropy {o['entropy'].tolist()} != oracle {rp.ent.sum(1).tolist()} ({info})", inp)
            # evaluate round trip on the returned actions
            ev = tcall(f"C11.{pid}.eval.raises", inp, pol, flat, env, actions=acts, return_entropy=True, return_sum_log_likelihood=False, **(dict(num_samples=poly) if poly else kw))
            if ev is None:
                continue
            el, s0 = ev["log_likelihood"], 1 if forced else 0
            if el.shape != rp.lp.shape or not close(el[:, s0:], rp.lp[:, s0:]):
                fail(f"C11.{pid}.eval.steps", f"evaluate per-step log-probs differ from those of generation ({info})", inp)
            elif forced and not close(el[:, 0], rp.lp[:, 0]):
                fail("C11.multistart.eval.first-move-forced", f"{pid}: forced first move has logp 0 at generation but {el[:, 0].tolist()} on re-evaluation, so log_likelihood differs ({info})", inp)
            if not close(ev["reward"], o["reward"]):
                fail(f"C11.{pid}.eval.reward", f"evaluate reward differs ({info})", inp)
            if not forced and not close(ev["entropy"], o["entropy"]):
                fail(f"C11.{pid}.eval.entropy", f"evaluate entropy differs ({info})", inp)


def c11_other(pid, pol, env, td, key, kind):
    """PointerNetwork (own forward, eval_tours round trip) and MDAM (several decoder paths, no evaluate mode)."""
    for dt in ("greedy", "sampling"):
        rep.case(("C11",) + key + (dt,))
        o = tcall(f"C11.{pid}.gen.raises", small(td, decode_type=dt), pol, td, env, seed=A.seed + 7, decode_type=dt)
        if o is None:
            continue
        acts, inp, ll = o["actions"], small(td, o["actions"], decode_type=dt), o["log_likelihood"]
        if kind == "mdam":
            lp, raw, done = mdam_replay(pol, env, td, acts)
            if not done.all():
                fail(f"C11.{pid}.gen.feasible-complete", "returned actions do not complete the episode", inp)
            elif not close(ll[:, -1], lp.sum(1)):
                nm = "ll-unnormalised-logits" if close(ll[:, -1], raw.sum(1)) else "ll-equals-step-logp"
                fail(f"C11.{pid}.gen.{nm}", f"log_likelihood (last path) {ll[:, -1].tolist()} != sum of normalised step log-probs {lp.sum(1).tolist()}", inp)
            continue
        if not all(sorted(a.tolist()) == list(range(acts.size(1))) for a in acts):
            fail(f"C11.{pid}.gen.feasible-complete", "tour is not a permutation", inp)
            continue
        lp = ptr_replay(pol, td, acts)
        if not close(ll, lp.sum(1)):
            fail(f"C11.{pid}.gen.ll-equals-step-logp", f"log_likelihood {ll.tolist()} != oracle {lp.sum(1).tolist()}", inp)
        if dt == "greedy":  # no alternative first move (tour rotated by k) may have a higher oracle log-prob than the chosen one
            alt = torch.stack([ptr_replay(pol, td, torch.roll(acts, -k, 1))[:, 0] for k in range(1, acts.size(1))], 1).max(1).values
            if (alt > lp[:, 0] + TIE).any():
                fail(f"C11.{pid}.gen.greedy-is-argmax", "greedy first move is not the most probable one", inp)
        ev = tcall(f"C11.{pid}.eval.raises", inp, pol, td, env, decode_type=dt, eval_tours=acts)
        if ev is not None and not ((ev["actions"] == acts).all() and close(ev["log_likelihood"], lp.sum(1)) and close(ev["reward"], o["reward"])):
            fail(f"C11.{pid}.eval.steps", "eval_tours pass does not reproduce actions / log_likelihood / reward", inp)


def c11_mask_unit(s):
    rep.case(("C11", "get_log_likelihood.mask", s))
    g = torch.Generator().manual_seed(A.seed + s)
    lp = -torch.rand(4, 6, 5, generator=g) - 0.1
    acts, m = torch.randint(0, 5, (4, 6), generator=g), torch.rand(4, 6, generator=g) > 0.4
    sel = lp.gather(-1, acts[..., None]).squeeze(-1)
    for a, l in ((acts, lp.clone()), (None, sel.clone())):
        if not close(get_log_likelihood(l, a, m, True), (sel * m).sum(1)):
            fail("C11.get_log_likelihood.mask", "masked (irrelevant) steps do not contribute exactly zero", dict(logprobs=lp, actions=acts, mask=m))
    env, pol = get_env("tsp", generator_params=dict(num_loc=5)), _am("tsp")().eval()
    td = env.reset(batch_size=[3])
    td["mask"] = m[:3, :5].clone()
    o = call(pol, td, env, decode_type="greedy")
    if not close(o["log_likelihood"], (replay(pol, env, td, o["actions"]).lp * m[:3, :5]).sum(1)):
        fail("C11.am.tsp.gen.td-mask-zeroes-steps", "steps flagged irrelevant by td['mask'] are not zeroed in log_likelihood", small(td, o["actions"], mask=m[:3, :5]))


# ----------------------------------------------------------------------------------------------- C13
def own_beam(pol, env, td, first, W):
    """Independent beam search, b-major rows (b*W+w), history re-indexed each step. first: [(w b)] forced first moves."""
    n = td.batch_size[0]
    with torch.no_grad():
        cur = td[torch.arange(n * W) // W].clone()
        hidden, _ = pol.encoder(cur)
        cur, _, hidden = pol.decoder.pre_decoder_hook(cur, env, hidden, 0)
        a0 = first.view(W, n).t().reshape(-1)
        cur.set("action", a0)
        cur = env.step(cur)["next"]
        hist, score, tie = a0[:, None], torch.zeros(n * W).double(), torch.zeros(n, dtype=torch.bool)
        while not cur["done"].all() and hist.size(1) < 200:
            l = step_logp(pol, pol.decoder(cur, hidden, 0)[0], cur["action_mask"], ptemp(pol))
            N = l.size(-1)
            top = (score[:, None] + l).view(n, W * N).topk(W + 1, 1)
            tie |= ~((top.values[:, W - 1] - top.values[:, W]) >= TIE)
            idx = top.indices[:, :W]
            src, node = (torch.arange(n)[:, None] * W + idx // N).reshape(-1), (idx % N).reshape(-1)
            cur, hist, score = cur[src], torch.cat([hist[src], node[:, None]], 1), top.values[:, :W].reshape(-1)
            cur.set("action", node)
            cur = env.step(cur)["next"]
    return hist.view(n, W, -1), tie


def c13(pid, pol, env, td, ms, key):
    n, N = td.batch_size[0], int(td["action_mask"].shape[-1])
    for W in sorted({2, N - 1}) if QUICK else range(2, N + 1):
        rep.case(("C13",) + key + (W,))
        rec, base = {}, own_starts if ms == "own" else (lambda t, e, k: e.select_start_nodes(t, num_starts=k))

        def fn(t, e, k):
            rec["a"] = base(t, e, k).clone()
            return rec["a"]

        info = dict(decode_type="beam_search", beam_width=W)
        bkw = dict(decode_type="beam_search", beam_width=W, select_start_nodes_fn=fn)
        oa = tcall(f"C13.{pid}.beam.raises", small(td, **info), pol, td, env, select_best=False, return_sum_log_likelihood=False, **bkw)
        ob = tcall(f"C13.{pid}.beam.raises", small(td, **info), pol, td, env, select_best=True, **bkw)
        if oa is None or ob is None:
            continue
        acts, first, flat = oa["actions"], rec["a"], expand(td, W)
        inp = small(td, acts, first_moves=first, **info)
        rp = replay(pol, env, flat, acts, forced=True, temp=ptemp(pol)) if acts.shape[0] == n * W else None
        if rp is None or not rp.ok:
            fail(f"C13.{pid}.beam.feasible-complete", f"a returned beam is infeasible / incomplete / missing ({info})", inp)
            continue
        if not close(oa["log_likelihood"], rp.lp):
            fail(f"C13.{pid}.beam.ll-equals-sequence-logp", f"beam per-step log-probs are not those of the returned sequence, max diff {(oa['log_likelihood'] - rp.lp).abs().max():.4g} ({info})", inp)
        if not close(oa["reward"], rp.reward):
            fail(f"C13.{pid}.beam.reward", f"beam rewards are not those of the returned sequences ({info})", inp)
        seqs = acts.view(W, n, -1).transpose(0, 1)  # [n, W, T]
        sets = [{tuple(s.tolist()) for s in seqs[b]} for b in range(n)]
        hist, tie = own_beam(pol, env, td, first, W)
        for b in range(n):
            if len(set(first.view(W, n)[:, b].tolist())) == W and len(sets[b]) < W:
                fail(f"C13.{pid}.beam.distinct", f"instance {b}: beams not pairwise distinct although their first moves are ({info})", inp)
            if not tie[b] and sets[b] != {tuple(s.tolist()) for s in hist[b]}:
                fail(f"C13.{pid}.beam.topk-matches-oracle", f"instance {b}: kept beams {sorted(sets[b])} != own beam search {hist[b].tolist()} ({info})", inp)
        best = rp.reward.view(W, n).max(0).values
        rb = replay(pol, env, td, ob["actions"], forced=True, temp=ptemp(pol))
        ok = rb.valid and close(ob["reward"], best) and close(rb.reward, best) and close(ob["log_likelihood"], rb.lp.sum(1))
        if not (ok and all(tuple(ob["actions"][b].tolist()) in sets[b] for b in range(n))):
            fail(f"C13.{pid}.beam.select-best-is-max", f"select_best result {ob['reward'].tolist()} is not the best beam {best.tolist()} (or its actions / log-likelihood are not that beam's) ({info})", inp)
        ev = tcall(f"C13.{pid}.beam.eval.raises", inp, pol, flat, env, actions=acts, return_sum_log_likelihood=False)
        if ev is None:
            continue
        if ev["log_likelihood"].shape != rp.lp.shape or not close(ev["log_likelihood"][:, 1:], rp.lp[:, 1:]) or not close(ev["reward"], oa["reward"]):
            fail(f"C13.{pid}.beam.eval.steps", f"evaluate pass of the beams differs after the first move ({info})", inp)
        elif not close(ev["log_likelihood"][:, 0], rp.lp[:, 0]):
            fail("C13.beam.eval.first-move-forced", f"{pid}: forced first move has logp 0 in beam search but {ev['log_likelihood'][:, 0].tolist()} on re-evaluation ({info})", inp)


# ----------------------------------------------------------------------------------------------- C14
def c14(pid, pol, env, td, kind, ms, key):
    n = td.batch_size[0]
    modes = [("greedy", {}, 1)]
    if kind == "poly":
        modes = [("greedy", dict(num_samples=3), 3)]
    elif ms:
        S, extra = ms_kwargs(td, ms)
        modes.append(("multistart_greedy", extra, S))
    for dt, kw, S in modes:
        def run(idx, name):
            k, sub = len(idx), td[torch.tensor(idx)]
            o = tcall(name, small(sub, decode_type=dt, batch_rows=idx), pol, sub, env, decode_type=dt, **kw)
            f = lambda x: x.reshape(S, k, *x.shape[1:]).transpose(0, 1) if S > 1 else x[:, None]  # noqa: E731
            return o and (f(o["actions"]), f(o["reward"]).reshape(k, -1), f(o["log_likelihood"]).reshape(k, -1))

        full = run(list(range(n)), f"C14.{pid}.{dt}.raises")
        if full is None:
            continue
        comps = [("solo", [i]) for i in range(n)] + [("reversed", list(range(n))[::-1]), ("subsample", [n - 1, 0]), ("duplicates", [1, 0, 1, 1])]
        for cname, idx in comps:
            rep.case(("C14",) + key + (dt, cname, tuple(idx)))
            info = dict(decode_type=dt, batch_rows=idx, composition=cname)
            got = run(idx, f"C14.{pid}.{dt}.raises" + ("-batch-size-1" if len(idx) == 1 else ""))
            for j, i in enumerate(idx if got else []):
                fa, ga = full[0][i], got[0][j]  # [S, T]
                T = min(fa.size(1), ga.size(1))
                inp = small(td, None, full_batch_actions=fa, other_actions=ga, **info)
                diff = (fa[:, :T] != ga[:, :T]).nonzero()
                if len(diff) and kind in ("ar", "poly"):  # accept only a near-tie of the two best actions at the first differing step
                    s, t = diff[0].tolist()
                    rows, ar = td[torch.tensor([i])], kind == "ar"
                    rp = replay(pol, env, expand(rows, S) if ar else rows, fa[:, : t + 1], forced=S > 1 and ar, dec_starts=0 if ar else S)
                    if rp.gap[s, t] < TIE:
                        continue
                if len(diff):
                    fail(f"C14.{pid}.{dt}.actions", f"instance {i}: greedy actions depend on batch composition ({info})", inp)
                    continue
                if not close(full[1][i], got[1][j]):
                    fail(f"C14.{pid}.{dt}.reward", f"instance {i}: reward {full[1][i].tolist()} in the full batch vs {got[1][j].tolist()} ({info})", inp)
                if not close(full[2][i], got[2][j]):
                    fail(f"C14.{pid}.{dt}.ll", f"instance {i}: log-likelihood {full[2][i].tolist()} in the full batch vs {got[2][j].tolist()} ({info})", inp)


# ----------------------------------------------------------------------------------------------- driver
def extras():
    """Known-defect probes that the grid cannot reach by construction."""
    rep.case(("extra", "sdvrp-checker"))
    env = get_env("sdvrp", generator_params=dict(num_loc=4))
    g = env.generator(batch_size=[1])
    g["demand"] = torch.full_like(g["demand"], 0.1)
    tcall("C14.am.sdvrp.batch-size-1.checker-rejects-depotless-tour", small(g, torch.tensor([[1, 2, 3, 4]])), _am("sdvrp")().eval(), env.reset(g), env, actions=torch.tensor([[1, 2, 3, 4]]))
    mk = {"C14.matnet.ffsp.policy-raises": lambda: (MatNetPolicy(env_name="ffsp", **SM), get_env("ffsp", generator_params=dict(num_job=4, num_machine=2, num_stage=2))),
          "C14.l2dattn.jssp.policy-raises": lambda: (L2DAttnPolicy(env_name="jssp", **SM), get_env("jssp", generator_params=dict(num_jobs=3, num_machines=2)))}
    for name, f in mk.items():
        rep.case(("extra", name))
        try:
            pol, env = f()
            call(pol.eval(), env.reset(batch_size=[2]), env, decode_type="greedy")
        except Exception as e:
            fail(name, f"bundled policy cannot be built/run on its environment: {type(e).__name__}: {str(e)[:160]}")
    torch.manual_seed(A.seed)
    env, pol = get_env("atsp", generator_params=dict(num_loc=5)), _matnet(det=False).eval()
    c14("matnet.atsp.random-onehot-init", pol, env, env.reset(batch_size=[B]), "mat-random", None, ("matnet.atsp.random-init", 5, 0))


def _timeout(*_):
    raise TimeoutError("cell exceeded 120 s (non-terminating decoding loop or overloaded machine)")


def main():
    signal.signal(signal.SIGALRM, _timeout)
    only = [s for s in A.only.split(",") if s]
    props = [p for p in A.prop.split(",") if p] or ["C11", "C13", "C14"]
    budget, skipped = A.budget or (45 if QUICK else 480), 0
    for seed in SEEDS:  # seeds/sizes outermost: every pair is covered before a wall-clock budget can truncate the grid
        for n in SIZES:
            for pid, mkpol, mkenv, kind, ms, beam in ZOO:
                if only and not any(s in pid for s in only):
                    continue
                if rep.elapsed() > budget:
                    skipped += 1
                    continue
                key = (pid, n, seed)

                def one():
                    torch.manual_seed(1000 * A.seed + 17 * seed + n)
                    pol, env = mkpol().eval(), mkenv(n)
                    td = env.reset(batch_size=[B])
                    if "C11" in props:
                        c11_ar(pid, pol, env, td, ms, key, poly=3 * (kind == "poly")) if kind in ("ar", "poly") else c11_other(pid, pol, env, td, key, kind)
                    if "C13" in props and beam:
                        c13(pid, pol, env, td, ms, key)
                    if "C14" in props:
                        c14(pid, pol, env, td, kind, ms, key)

                signal.alarm(120)  # backstop against a non-terminating library loop (reported as an error by guard)
                rep.guard(one, f"{pid} n={n} seed={seed}")
                signal.alarm(0)
    if skipped:
        rep.bound += f" [wall-clock budget {budget}s hit: the last {skipped} (pair, size, seed) cells of the grid were skipped]"
    if not only:
        if "C11" in props:
            for s in SEEDS:
                rep.guard(lambda: c11_mask_unit(s), "mask unit")
        if "C14" in props:
            rep.guard(extras, "extras")


if __name__ == "__main__":
    main()
    sys.exit(rep.finish())
