"""Native scenarios: the call histories of contract units that cannot be replayed as one recorded call
(several calls on shared state, stubbed collaborators, internal samplers). Each scenario receives the witness inputs
of the verifier's counter-model (name -> torch tensor), runs the SAME history on the real code and returns labelled
outputs; concrete/replay.py compares them with the values the counter-model predicts. Runs under /venv/bin/python."""
import contextlib

import torch
from tensordict import TensorDict

SCENARIOS = {}


def scenario(name):
    def deco(fn):
        SCENARIOS[name] = fn
        return fn

    return deco


def _rands(ins):
    ks = sorted((k for k in ins if k.startswith("rand") and k[4:].isdigit()), key=lambda k: int(k[4:]))
    return [ins[k] for k in ks]


@contextlib.contextmanager
def patched_rand(values):
    """torch.rand returns the witness draws, in call order."""
    vals = list(values)
    real = torch.rand

    def fake(*size, **kw):
        v = vals.pop(0)
        return v.clone().float()

    torch.rand = fake
    try:
        yield
    finally:
        torch.rand = real


@scenario("mtvrp.generate_time_windows")
def _(ins, scal, dims, params):
    from rl4co.envs.routing.mtvrp.generator import MTVRPGenerator

    g = object.__new__(MTVRPGenerator)
    g.max_time = float(scal["max_time"])
    with patched_rand(_rands(ins)):
        tw, st = MTVRPGenerator.generate_time_windows(g, ins["locs"].float(), ins["speed"].float())
    return {"time_windows": tw, "service_time": st}


@scenario("dataset.extrakey")
def _(ins, scal, dims, params):
    from rl4co.data.dataset import ExtraKeyDataset, TensorDictDataset

    n = ins["locs"].shape[0]
    td = TensorDict({"locs": ins["locs"].float(), "demand": ins["demand"].float(), "flag": ins["flag"].long()}, batch_size=[n])
    base = TensorDictDataset(td)
    out = {}
    ds = ExtraKeyDataset(base, ins["extra"].float())
    for c, chunk in enumerate(params["chunks"]):
        b = base.collate_fn([ds[i] for i in chunk])
        out[f"chunk{c}.extra"] = b["extra"]
    ds2 = ExtraKeyDataset(base, ins["extra_second_wrap"].float())
    for c, chunk in enumerate(params["chunks"][1:3]):
        b = base.collate_fn([ds2[i] for i in chunk])
        out[f"rewrap.chunk{c}.extra"] = b["extra"]
    ds3 = ExtraKeyDataset(ds2, ins["extra_nested_wrap"].float())
    b = base.collate_fn([ds3[i] for i in params["chunks"][2]])
    out["nested.chunk.extra"] = b["extra"]
    return out


@scenario("decoding.select_best")
def _(ins, scal, dims, params):
    from rl4co.utils.decoding import Greedy

    rew = ins["rewards"].float()
    K = int(dims["K"])

    class Env:
        def get_reward(self, td, actions):
            return rew

    st = Greedy(num_starts=K)
    n = ins["actions"].shape[0]
    td = TensorDict({"reward_key": ins["tdval"].float()}, batch_size=[n])
    lo, ao, tdo, _ = st._select_best(ins["logprobs"].float(), ins["actions"].long(), td, Env())
    return {"logprobs": lo, "actions": ao, "td.reward_key": tdo["reward_key"]}


@scenario("rl.warmup_baseline")
def _(ins, scal, dims, params):
    from rl4co.models.rl.reinforce.baselines import ExponentialBaseline, WarmupBaseline

    class Fixed:
        def eval(self, td, reward, env=None):
            return torch.tensor(float(scal["v_inner"])), torch.tensor(float(scal["l_inner"]))

    w = object.__new__(WarmupBaseline)
    torch.nn.Module.__init__(w)
    w.baseline = Fixed()
    eb = ExponentialBaseline(beta=float(scal["beta"]))
    eb.v = torch.tensor(float(scal["v_prev"]))
    w.warmup_baseline = eb
    w.alpha = float(scal["alpha"])
    w.n_epochs = int(scal.get("n_epochs", 3))
    v, l = w.eval(None, ins["reward"].float(), None)
    return {"value": torch.as_tensor(v).float(), "loss": torch.as_tensor(l).float()}


@scenario("am.decoder.cache.batchify")
def _(ins, scal, dims, params):
    from rl4co.models.zoo.am.decoder import PrecomputedCache

    names = ("node_embeddings", "graph_context", "glimpse_key", "glimpse_val", "logit_key")
    c = PrecomputedCache(*[ins[n].float() for n in names])
    out = c.batchify(int(dims["K"]))
    return {n: getattr(out, n) for n in names}


def _npz(tmp, data):
    import os

    import numpy as np

    path = os.path.join(tmp, "data.npz")
    np.savez(path, **{k: v.numpy() for k, v in data.items()})
    return path


@scenario("cvrp.load_data")
def _(ins, scal, dims, params):
    import tempfile

    from rl4co.envs.routing.cvrp.env import CVRPEnv

    with tempfile.TemporaryDirectory() as tmp:
        path = _npz(tmp, {k: ins[k].float() for k in ("locs", "depot", "demand", "capacity")})
        out = CVRPEnv.load_data(path)
    return {k: out[k] for k in ("locs", "depot", "demand", "capacity")}


@scenario("cvrp.generator.init")
def _(ins, scal, dims, params):
    from rl4co.envs.routing.cvrp.generator import CVRPGenerator

    cap = float(scal["capacity"])
    return {f"explicit{n}": float(CVRPGenerator(num_loc=n, capacity=cap).capacity) for n in (20, 50, 23)}


@scenario("dataset.fastgen")
def _(ins, scal, dims, params):
    from rl4co.data.dataset import TensorDictDatasetFastGeneration as DS

    n = ins["locs"].shape[0]
    td = TensorDict({"locs": ins["locs"].float(), "demand": ins["demand"].float(), "flag": ins["flag"].long()}, batch_size=[n])
    ds = DS(td)
    out = {}
    ds = ds.add_key("extra", ins["extra"].float())
    for c, chunk in enumerate(params["chunks"]):
        out[f"chunk{c}.extra"] = DS.collate_fn(ds.__getitems__(list(chunk)))["extra"]
    ds = ds.add_key("extra", ins["extra_second_wrap"].float())
    for c, chunk in enumerate(params["chunks"][1:3]):
        out[f"rewrap.chunk{c}.extra"] = DS.collate_fn(ds.__getitems__(list(chunk)))["extra"]
    return out


@scenario("rl.reward_scaler.call")
def _(ins, scal, dims, params):
    from rl4co.models.rl.common.utils import RewardScaler

    out = {}
    for mode in ("norm", "scale"):
        rs = RewardScaler(mode)
        rs.count = int(scal[f"n_{mode}"])
        rs.mean = ins[f"mean_{mode}"].float().clone()
        rs.M2 = ins[f"M2_{mode}"].float().clone()
        rs(ins["scores"].float().clone())
        out[f"count_{mode}"] = float(rs.count)
    return out
