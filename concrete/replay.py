"""Replay a counterexample on the real code (runs under /venv/bin/python).

usage: replay.py <replay.json> [--repo /repo]
The file holds, per call, the concrete inputs extracted from the solver model
and the outputs predicted by the symbolic semantics under which the named
obligation is false. The real function is called on those inputs; if its
outputs agree with the prediction, the obligation is violated by the real code
(CONFIRMED). Otherwise the counterexample lives in the abstraction gap
(NOT-CONFIRMED) and the caller reports `no-failing-input-found`.
Exit 0 = CONFIRMED, 4 = NOT-CONFIRMED, 5 = could not replay.
"""
import importlib
import json
import os
import sys
import types


def main():
    path = sys.argv[1]
    repo = "/repo"
    if "--repo" in sys.argv:
        repo = sys.argv[sys.argv.index("--repo") + 1]
    repo = os.environ.get("TVC_REPO", repo)
    sys.path.insert(0, repo)
    import torch
    from tensordict import TensorDict

    TD = {"f": torch.float32, "i": torch.int64, "b": torch.bool}

    def build(v, tdt=None):
        if isinstance(v, dict):
            if "__tensor__" in v:
                t = v["__tensor__"]
                dt = getattr(torch, t.get("torch_dtype") or "") if t.get("torch_dtype") else TD[t["dtype"]]
                x = torch.tensor(t["data"], dtype=dt)
                return x.reshape(t["shape"])
            if "__td__" in v:
                return TensorDict({k: build(x) for k, x in v["__td__"].items()}, batch_size=v["batch_size"])
            if "__dict__" in v:
                return {k: build(x) for k, x in v["__dict__"].items()}
            if "__ns__" in v:
                return types.SimpleNamespace(**{k: build(x) for k, x in v["__ns__"].items()})
            if "__obj__" in v:
                return make_obj(v)
            if "__repr__" in v:
                return None
        if isinstance(v, list):
            return [build(x) for x in v]
        return v

    def make_obj(d):
        modname = d["__file__"][:-3].replace("/", ".")
        mod = importlib.import_module(modname)
        cls = getattr(mod, d["__obj__"])
        o = object.__new__(cls)
        try:
            torch.nn.Module.__init__(o)
        except Exception:
            pass
        for k, x in d["attrs"].items():
            try:
                object.__setattr__(o, k, build(x))
            except Exception:
                o.__dict__[k] = build(x)
        return o

    def close(a, b, tol=1e-4):
        """a: real output, b: predicted (json)."""
        if isinstance(b, dict) and "__tensor__" in b:
            if not torch.is_tensor(a):
                return False, f"expected tensor, got {type(a).__name__}"
            t = b["__tensor__"]
            if list(a.shape) != list(t["shape"]):
                return False, f"shape {list(a.shape)} vs predicted {t['shape']}"
            e = torch.tensor(t["data"]).reshape(t["shape"])
            if t["dtype"] == "f":
                ok = torch.allclose(a.double(), e.double(), atol=tol, rtol=tol)
            else:
                ok = bool((a.long() == e.long()).all())
            return ok, "" if ok else f"values {a.tolist()} vs predicted {e.tolist()}"
        if isinstance(b, dict) and "__td__" in b:
            msgs = []
            ok = True
            for k, x in b["__td__"].items():
                if k not in a.keys():
                    ok = False
                    msgs.append(f"missing key {k}")
                    continue
                o, m = close(a[k], x, tol)
                if not o:
                    ok = False
                    msgs.append(f"{k}: {m}")
            return ok, "; ".join(msgs)
        if isinstance(b, list):
            if not isinstance(a, (list, tuple)) or len(a) != len(b):
                return False, "sequence mismatch"
            res = [close(x, y, tol) for x, y in zip(a, b)]
            return all(r[0] for r in res), "; ".join(r[1] for r in res if not r[0])
        if isinstance(b, dict) and "__repr__" in b:
            return True, ""
        if b is None:
            return True, ""
        if isinstance(b, float):
            try:
                return abs(float(a) - b) <= tol, f"{a} vs {b}"
            except Exception:
                return False, f"{a} vs {b}"
        if torch.is_tensor(a) and a.numel() == 1:
            a = a.item()
        return a == b, f"{a} vs {b}"

    rp = json.load(open(path))
    print(f"replay unit={rp.get('unit')} obligation={rp.get('obligation')} dims={rp.get('dims')}")
    if rp.get("native"):
        # a unit that runs a HISTORY of calls (or stubs a collaborator): the same history is run natively on the witness
        # inputs by concrete/scenarios.py; the labelled outputs are compared with the values of the counter-model
        nat = rp["native"]
        if "extraction_error" in nat:
            print("REPLAY-ERROR: extraction", nat["extraction_error"])
            return 5
        sys.path.insert(0, os.path.dirname(os.path.abspath(__file__)))
        import scenarios

        ins = {k: build(v) for k, v in nat["inputs"].items()}
        try:
            outs = scenarios.SCENARIOS[nat["scenario"]](ins, rp.get("witness_scalars", {}), rp.get("dims", {}), nat.get("params", {}))
        except AssertionError as e:
            print(f"native scenario {nat['scenario']} raised AssertionError: {e}")
            return 0 if rp.get("kind") == "assert" else 4
        except Exception as e:
            print(f"native scenario {nat['scenario']} raised {type(e).__name__}: {e}")
            return 0 if rp.get("kind") == "wf" else 4
        allok, n = True, 0
        for lab, exp in nat["expected"].items():
            if lab not in outs:
                continue
            n += 1
            ok, msg = close(outs[lab], exp)
            if not ok:
                print(f"native output '{lab}' differs from the symbolic prediction: {msg}")
                allok = False
        print(f"ran native scenario {nat['scenario']}: {n} labelled outputs compared")
        if allok and n:
            print("CONFIRMED: the real code produces the outputs under which the obligation is false")
            return 0
        print("NOT-CONFIRMED")
        return 4
    if not rp.get("calls"):
        print("NOT-CONFIRMED: no concrete call recorded (", rp.get("note", ""), ")")
        return 4
    allok = True
    for c in rp["calls"]:
        if "extraction_error" in c:
            print("REPLAY-ERROR: extraction", c["extraction_error"])
            return 5
        modname = c["file"][:-3].replace("/", ".")
        try:
            mod = importlib.import_module(modname)
            obj = mod
            for part in c["qual"].split("."):
                obj = getattr(obj, part)
            args = [build(a) for a in c["args"]]
            kwargs = {k: build(a) for k, a in c["kwargs"].items()}
            if c["self"] is not None:
                so = make_obj(c["self"])
                res = obj(so, *args, **kwargs)
            else:
                res = obj(*args, **kwargs)
        except AssertionError as e:
            print(f"real call {c['qual']} raised AssertionError: {e}")
            res = ("__raised__", "AssertionError", str(e))
            if c.get("expected_raise") or rp.get("kind") == "assert":
                # the refuted obligation IS an assert of the real function: raising on this input confirms it
                continue
            allok = False
            continue
        except Exception as e:
            print(f"real call {c['qual']} raised {type(e).__name__}: {e}")
            if c.get("expected_raise"):
                continue
            # an exception where the symbolic semantics predicted a normal return:
            # a WF obligation failing for real
            rp.setdefault("_raised", []).append(f"{type(e).__name__}: {e}")
            allok = allok and rp.get("kind") == "wf"
            continue
        ok, msg = close(res, c["expected_result"])
        if not ok:
            print(f"result of {c['qual']} differs from symbolic prediction: {msg}")
            allok = False
        for a, e in zip(args, c["expected_post_args"]):
            ok, msg = close(a, e)
            if not ok:
                print(f"post-state of an argument of {c['qual']} differs from symbolic prediction: {msg}")
                allok = False
        print(f"called {c['qual']}: result={'<td>' if hasattr(res, 'keys') else res}")
    if allok:
        print("CONFIRMED: the real code produces the outputs under which the obligation is false")
        return 0
    print("NOT-CONFIRMED")
    return 4


if __name__ == "__main__":
    sys.exit(main())
