#!/bin/bash
# Offline setup: nothing to build. Byte-compile the engine and prove the lemma library once as a smoke test.
cd "$(dirname "$0")"
export PYTHONPATH="$PWD"
python3-vt -m compileall -q tvc contracts >/dev/null 2>&1 || true
python3-vt -m tvc.lemmas 2>&1 | grep -v auto_activate_base
